// ===== prelude/net.rs: std::net address types (opaque) and the ASCII helper used by name() =====
#[verifier::external_type_specification]
pub struct ExIpAddr(IpAddr);
#[verifier::external_type_specification]
#[verifier::external_body]
pub struct ExIpv4Addr(Ipv4Addr);
#[verifier::external_type_specification]
#[verifier::external_body]
pub struct ExIpv6Addr(Ipv6Addr);
pub uninterp spec fn v4_octets(a: Ipv4Addr) -> Seq<u8>;
pub uninterp spec fn v6_octets(a: Ipv6Addr) -> Seq<u8>;
pub assume_specification [<Ipv4Addr as From<[u8; 4]>>::from] (b: [u8; 4]) -> (r: Ipv4Addr)
    ensures v4_octets(r) == b@;
pub assume_specification [Ipv4Addr::octets] (a: &Ipv4Addr) -> (r: [u8; 4])
    ensures r@ == v4_octets(*a);
pub assume_specification [<Ipv6Addr as From<[u8; 16]>>::from] (b: [u8; 16]) -> (r: Ipv6Addr)
    ensures v6_octets(r) == b@;
pub assume_specification [Ipv6Addr::octets] (a: &Ipv6Addr) -> (r: [u8; 16])
    ensures r@ == v6_octets(*a);
pub assume_specification [<[u8]>::make_ascii_lowercase] (s: &mut [u8])
    ensures final(s)@.len() == old(s)@.len(), forall|i: int| 0 <= i < old(s)@.len() ==> #[trigger] final(s)@[i] == lower(old(s)@[i]);
