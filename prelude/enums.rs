// ===== prelude/enums.rs: value of `X.into()` for the crate's field-less enums (annotation, not a rewrite) =====
impl vstd::std_specs::convert::FromSpecImpl<Type> for u16 {
    open spec fn obeys_from_spec() -> bool { true }
    open spec fn from_spec(v: Type) -> u16 { v as u16 }
}
impl vstd::std_specs::convert::FromSpecImpl<Class> for u16 {
    open spec fn obeys_from_spec() -> bool { true }
    open spec fn from_spec(v: Class) -> u16 { v as u16 }
}
