// ===== prelude/common.rs: shims and assumed std specifications (the complete trusted list is prelude/TRUSTED.txt) =====

// the verified text is checked for the 64-bit targets the crate is built for here
global size_of usize == 8;

// R1: `bail!(E)` becomes `return Err(E)`; the error type of the extracted text is the crate's own error enum.
pub type Error = DSError;

// big-endian decoding, the specification used everywhere
pub open spec fn be16(p: Seq<u8>, i: int) -> u16 { ((p[i] as u16) << 8) | (p[i + 1] as u16) }
pub open spec fn be32(p: Seq<u8>, i: int) -> u32 {
    ((p[i] as u32) << 24) | ((p[i + 1] as u32) << 16) | ((p[i + 2] as u32) << 8) | (p[i + 3] as u32)
}
pub open spec fn hi8(v: u16) -> u8 { (v >> 8) as u8 }
pub open spec fn lo8(v: u16) -> u8 { (v & 0xff) as u8 }
pub open spec fn b16(v: u16) -> Seq<u8> { seq![hi8(v), lo8(v)] }
pub open spec fn b32(v: u32) -> Seq<u8> { seq![(v >> 24) as u8, ((v >> 16) & 0xff) as u8, ((v >> 8) & 0xff) as u8, (v & 0xff) as u8] }

// R6: assert!/debug_assert! become a call with a precondition (so they are proof obligations)
pub fn rt_assert(c: bool)
    requires c
{ }

// R7: panic!/unreachable! become a call that must be unreachable
#[verifier::external_body]
pub fn rt_unreachable<A>() -> (r: A)
    requires false
{ panic!() }

// R10: byteorder shims.  `BigEndian::read_u16(&E[o..])` is `be_read_u16(E, o)`.
#[verifier::external_body]
pub fn be_read_u16(p: &[u8], o: usize) -> (r: u16)
    requires o + 2 <= p.len()
    ensures r == be16(p@, o as int)
{ ((p[o] as u16) << 8) | (p[o + 1] as u16) }

#[verifier::external_body]
pub fn be_read_u32(p: &[u8], o: usize) -> (r: u32)
    requires o + 4 <= p.len()
    ensures r == be32(p@, o as int)
{ ((p[o] as u32) << 24) | ((p[o + 1] as u32) << 16) | ((p[o + 2] as u32) << 8) | (p[o + 3] as u32) }

#[verifier::external_body]
pub fn be_write_u16(p: &mut [u8], o: usize, v: u16)
    requires o + 2 <= old(p).len()
    ensures final(p)@ == old(p)@.update(o as int, hi8(v)).update(o as int + 1, lo8(v))
{ p[o] = (v >> 8) as u8; p[o + 1] = (v & 0xff) as u8; }

#[verifier::external_body]
pub fn be_write_u32(p: &mut [u8], o: usize, v: u32)
    requires o + 4 <= old(p).len()
    ensures final(p)@ == old(p)@.update(o as int, (v >> 24) as u8).update(o as int + 1, ((v >> 16) & 0xff) as u8)
                .update(o as int + 2, ((v >> 8) & 0xff) as u8).update(o as int + 3, (v & 0xff) as u8)
{ p[o] = (v >> 24) as u8; p[o + 1] = (v >> 16) as u8; p[o + 2] = (v >> 8) as u8; p[o + 3] = v as u8; }

// `BigEndian::write_u16(&mut E[a..b], v)`: byteorder panics unless the sub-slice holds at least 2 bytes
#[verifier::external_body]
pub fn be_write_u16_rng(p: &mut [u8], a: usize, b: usize, v: u16)
    requires a + 2 <= b <= old(p).len()
    ensures final(p)@ == old(p)@.update(a as int, hi8(v)).update(a as int + 1, lo8(v))
{ p[a] = (v >> 8) as u8; p[a + 1] = (v & 0xff) as u8; }

// R16
pub fn max_usize(a: usize, b: usize) -> (r: usize)
    ensures r == (if a >= b { a } else { b })
{ if a >= b { a } else { b } }

// a Vec<u8> never holds more than isize::MAX bytes (Rust's documented allocation limit)
#[verifier::external_body]
pub proof fn axiom_vec_len(v: &Vec<u8>)
    ensures v.len() <= isize::MAX
{ }

#[verifier::external_body]
pub proof fn axiom_slice_len(v: &[u8])
    ensures v.len() <= isize::MAX
{ }

// two live allocations fit in the address space together (each is at most isize::MAX bytes and they do not overlap)
#[verifier::external_body]
pub proof fn axiom_two_vecs(a: &Vec<u8>, b: &Vec<u8>)
    ensures a.len() + b.len() <= isize::MAX
{ }

// R26: `D[a..b].copy_from_slice(S)` (std: panics unless a <= b <= D.len() and S.len() == b - a)
#[verifier::external_body]
pub fn slice_copy_into(dst: &mut [u8], a: usize, b: usize, src: &[u8])
    requires a <= b <= old(dst).len(), src.len() == b - a
    ensures final(dst)@ == old(dst)@.subrange(0, a as int) + src@ + old(dst)@.subrange(b as int, old(dst)@.len() as int)
{ dst[a..b].copy_from_slice(src) }
