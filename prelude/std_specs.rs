// ===== prelude/std_specs.rs: assumed specifications of std functions that vstd does not cover =====
pub assume_specification [u8::is_ascii_control] (c: &u8) -> (r: bool)
    ensures r == (*c < 32 || *c == 127);

pub open spec fn lower(c: u8) -> u8 { if 65 <= c <= 90 { (c + 32) as u8 } else { c } }
pub assume_specification [u8::eq_ignore_ascii_case] (a: &u8, b: &u8) -> (r: bool)
    ensures r == (lower(*a) == lower(*b));

pub assume_specification<T> [core::mem::replace::<T>] (dest: &mut T, src: T) -> (r: T)
    ensures r == *old(dest), *final(dest) == src;

pub assume_specification<T> [Option::<T>::or] (a: Option<T>, b: Option<T>) -> (r: Option<T>)
    ensures r == (if a.is_some() { a } else { b });

pub assume_specification<T, E> [Result::<T, E>::unwrap_or] (a: Result<T, E>, d: T) -> (r: T)
    ensures r == (match a { Ok(v) => v, Err(_) => d });

pub assume_specification<T, U, F: FnOnce(T) -> U> [Option::<T>::map_or] (a: Option<T>, d: U, f: F) -> (r: U)
    requires a matches Some(x) ==> f.requires((x,))
    ensures a is None ==> r == d, a matches Some(x) ==> f.ensures((x,), r);
