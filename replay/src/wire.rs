#![allow(unused)]
