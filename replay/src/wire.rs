//! Reference decoder: an independent executable statement of the parser's policy (property C02) and of the
//! RFC 1035 decoding the accessors must agree with (C03, C04), plus a structured packet generator.
#![allow(unused)]
use crate::util::*;

pub fn bad_char(c: u8) -> bool { c < 32 || c == 127 || c == b'.' || c == b'\\' }

/// compressed-name rule of C02.  Returns (offset right after the in-place encoding, expanded wire name).
pub fn name_walk(p: &[u8], start: usize) -> Option<(usize, Vec<u8>)> {
    if start >= p.len() { return None; }
    let (mut off, mut barrier, mut lowest) = (start, p.len(), start);
    let mut refs = 16;
    let mut out: Vec<u8> = vec![];
    let mut fend: Option<usize> = None;
    loop {
        if off >= barrier || off >= p.len() { return None; }
        let b = p[off];
        if b & 0xc0 == 0xc0 {
            if refs == 0 || off + 2 > p.len() { return None; }
            let t = (((b & 0x3f) as usize) << 8) | p[off + 1] as usize;
            if t >= lowest { return None; }          // strictly backward
            if p[t] == 0 { return None; }            // never to a root label
            if fend.is_none() { fend = Some(off + 2); }
            refs -= 1;
            barrier = lowest; lowest = t; off = t;
            continue;
        }
        if b > 63 { return None; }
        let l = b as usize;
        if off + l + 1 > p.len() { return None; }
        if out.len() + l + 1 > 255 { return None; }
        if p[off + 1..off + 1 + l].iter().any(|&c| bad_char(c)) { return None; }
        out.extend_from_slice(&p[off..off + 1 + l]);
        off += l + 1;
        if l == 0 { return Some((fend.unwrap_or(off), out)); }
    }
}

/// pointer-free rule, any label bytes
pub fn plain_walk(p: &[u8], start: usize) -> Option<usize> {
    let mut off = start;
    let mut n = 0usize;
    loop {
        if off >= p.len() { return None; }
        let b = p[off];
        if b & 0xc0 == 0xc0 || b > 63 { return None; }
        let l = b as usize;
        if off + l + 1 > p.len() || n + l + 1 > 255 { return None; }
        n += l + 1; off += l + 1;
        if l == 0 { return Some(off); }
    }
}

pub fn opts(p: &[u8], mut a: usize, b: usize) -> Option<Vec<(usize, u16, usize)>> {
    let mut v = vec![];
    while a < b {
        if a + 4 > b { return None; }
        let l = be16(p, a + 2) as usize;
        if a + 4 + l > b { return None; }
        v.push((a, be16(p, a), l));
        a += 4 + l;
    }
    Some(v)
}

#[derive(Clone, Debug, PartialEq)]
pub struct Rec {
    pub section: u8,          // 1 answer, 2 authority, 3 additional
    pub off: usize,
    pub name_end: usize,
    pub name: Vec<u8>,        // expanded wire name
    pub rtype: u16,
    pub class: u16,
    pub ttl: u32,
    pub rdlen: usize,
    pub end: usize,
    pub rdata_names: Vec<Vec<u8>>,  // expanded names inside understood rdata
}

#[derive(Clone, Debug)]
pub struct Msg {
    pub qname: Vec<u8>,
    pub qname_end: usize,
    pub qtype: u16,
    pub qclass: u16,
    pub recs: Vec<Rec>,
    pub starts: [Option<usize>; 4],   // question, answer, authority, additional
    pub opt: Option<usize>,           // offset right after the OPT owner name
    pub options: Vec<(usize, u16, usize)>,
}

pub fn parse_rr(p: &[u8], off: usize, section: u8, seen_opt: bool) -> Option<Rec> {
    let (ne, name) = name_walk(p, off)?;
    if ne + 10 > p.len() { return None; }
    let t = be16(p, ne);
    let l = be16(p, ne + 8) as usize;
    let d = ne + 10;
    let mut rn = vec![];
    match t {
        41 => {
            if section != 3 || ne - off != 1 || seen_opt { return None; }
            if d + l > p.len() { return None; }
            opts(p, d, d + l)?;
        }
        2 | 5 | 12 => { let (e, n) = name_walk(p, d)?; if e != d + l { return None; } rn.push(n); }
        15 => { if l <= 2 { return None; } let (e, n) = name_walk(p, d + 2)?; if e != d + l { return None; } rn.push(n); }
        6 => {
            let (e1, n1) = name_walk(p, d)?; let (e2, n2) = name_walk(p, e1)?;
            if e2 + 20 != d + l || d + l > p.len() { return None; }
            rn.push(n1); rn.push(n2);
        }
        39 => { if plain_walk(p, d)? != d + l { return None; } }
        1 => { if l != 4 || d + l > p.len() { return None; } }
        28 => { if l != 16 || d + l > p.len() { return None; } }
        _ => { if d + l > p.len() { return None; } }
    }
    Some(Rec { section, off, name_end: ne, name, rtype: t, class: be16(p, ne + 2), ttl: be32(p, ne + 4), rdlen: l, end: d + l, rdata_names: rn })
}

/// C02: Some(..) iff the packet is well-formed under the parser's policy
pub fn parse_ref(p: &[u8]) -> Option<Msg> {
    if p.len() < 12 { return None; }
    if be16(p, 4) != 1 { return None; }
    let (qne, qname) = name_walk(p, 12)?;
    if qne + 4 > p.len() { return None; }
    if be16(p, qne + 2) != 1 { return None; }
    let qr = p[2] & 0x80 != 0;
    let counts = [be16(p, 6) as usize, be16(p, 8) as usize, be16(p, 10) as usize];
    if !qr && (counts[0] > 0 || counts[1] > 0) { return None; }
    let mut off = qne + 4;
    let mut recs = vec![];
    let mut starts = [Some(12), None, None, None];
    let mut opt = None;
    let mut options = vec![];
    for s in 0..3 {
        if counts[s] > 0 { starts[s + 1] = Some(off); }
        for _ in 0..counts[s] {
            let r = parse_rr(p, off, (s + 1) as u8, opt.is_some())?;
            if r.rtype == 41 { opt = Some(r.name_end); options = opts(p, r.name_end + 10, r.end).unwrap(); }
            off = r.end;
            recs.push(r);
        }
    }
    if off != p.len() { return None; }
    Some(Msg { qname, qname_end: qne, qtype: be16(p, qne), qclass: be16(p, qne + 2), recs, starts, opt, options })
}

/// dotted lowercase text of an expanded wire name ('.' inside a label written \046)
pub fn to_text(name: &[u8]) -> Vec<u8> {
    let mut out = vec![];
    let mut i = 0;
    while i < name.len() && name[i] != 0 {
        let l = name[i] as usize;
        if !out.is_empty() { out.push(b'.'); }
        for &c in &name[i + 1..i + 1 + l] {
            if c == b'.' { out.extend_from_slice(b"\\046"); } else { out.push(c.to_ascii_lowercase()); }
        }
        i += l + 1;
    }
    out
}

// ---------------------------------------------------------------------------------------------------------------
// generator

pub struct Gen<'a> { pub r: &'a mut Rng, pub p: Vec<u8>, pub label_starts: Vec<usize>, pub compress: bool }

const ALPHA: &[u8] = b"abcXYZ019-_abcXYZ019-_[{@`";   // a few non-letters that differ only in bit 0x20 (case folding must not merge them)

impl<'a> Gen<'a> {
    pub fn label(&mut self) -> Vec<u8> {
        let n = match self.r.below(20) { 0 => 63, 1 => 62, 2 => 1, _ => 1 + self.r.below(6) as usize };
        (0..n).map(|_| *self.r.pick(ALPHA)).collect()
    }
    /// writes a name at the current end of self.p; may end in a pointer to an earlier label start
    pub fn name(&mut self, allow_ptr: bool) {
        if self.r.chance(1, 12) { self.p.push(0); return; }
        let nl = 1 + self.r.below(4) as usize;
        for _ in 0..nl {
            if allow_ptr && self.compress && !self.label_starts.is_empty() && self.r.chance(1, 3) {
                let t = *self.r.pick(&self.label_starts);
                if t < 0x4000 { self.p.push(0xc0 | (t >> 8) as u8); self.p.push(t as u8); return; }
            }
            let l = self.label();
            if self.p.len() < 0x3fff { self.label_starts.push(self.p.len()); }
            self.p.push(l.len() as u8);
            self.p.extend_from_slice(&l);
        }
        self.p.push(0);
    }
    /// a TXT-like record with 1100..9000 bytes of data made of label-shaped decoys (a reader that follows a pointer to the wrong place finds a name there)
    pub fn big_rr(&mut self) {
        self.name(true);
        put16(&mut self.p, 16); put16(&mut self.p, 1); put32(&mut self.p, self.r.next() as u32);
        let n = *self.r.pick(&[1100usize, 2100, 4200, 9000]) + self.r.below(64) as usize;
        put16(&mut self.p, n as u16);
        let mut k = 0;
        while k < n { let b = match k % 7 { 0 => 5, 6 => if self.r.chance(1, 3) { 0 } else { 3 }, _ => *self.r.pick(b"decoy") }; self.p.push(b); k += 1; }
    }
    pub fn rr(&mut self, section: usize, force_type: Option<u16>) {
        let t = force_type.unwrap_or_else(|| *self.r.pick(&[1u16, 1, 28, 2, 5, 12, 15, 6, 39, 16, 99, 33, 257]));
        if t == 41 { self.p.push(0); } else { self.name(true); }
        put16(&mut self.p, t);
        // OPT: the class field is the advertised UDP payload size -- any value, the small ones included
        let cl = if t == 41 { match self.r.below(8) { 0 => 0, 1 => 511, 2 => 512, 3 => 513, 4 => 65535, 5 => self.r.next() as u16, _ => 1232 } } else { 1 };
        put16(&mut self.p, cl);
        put32(&mut self.p, self.r.next() as u32);
        let lenpos = self.p.len();
        put16(&mut self.p, 0);
        let d = self.p.len();
        match t {
            1 => { let b = self.r.bytes(4); self.p.extend(b); }
            28 => { let mut b = self.r.bytes(16);
                    // special address forms: IPv4-mapped (::ffff:a.b.c.d), IPv4-compatible, unspecified, loopback
                    match self.r.below(8) { 0 => { for i in 0..10 { b[i] = 0; } b[10] = 0xff; b[11] = 0xff; } 1 => { for i in 0..12 { b[i] = 0; } } 2 => { for i in 0..16 { b[i] = 0; } } 3 => { for i in 0..15 { b[i] = 0; } b[15] = 1; } _ => {} }
                    self.p.extend(b); }
            2 | 5 | 12 => self.name(true),
            15 => { put16(&mut self.p, self.r.next() as u16); self.name(true); }
            6 => { self.name(true); self.name(true); let b = self.r.bytes(20); self.p.extend(b); }
            39 => { let c = self.compress; self.compress = false; let ls = self.label_starts.len(); self.name(false); self.label_starts.truncate(ls); self.compress = c;
                    if self.r.chance(1, 4) && self.p.len() > d + 2 { let k = d + 1; self.p[k] = *self.r.pick(&[b'.', 0u8, b'\\', 200]); } }
            41 => { for _ in 0..self.r.below(4) { put16(&mut self.p, self.r.next() as u16); let l = self.r.below(6) as usize; put16(&mut self.p, l as u16); let b = self.r.bytes(l); self.p.extend(b); } }
            _ => { let l = self.r.below(12) as usize; let b = self.r.bytes(l); self.p.extend(b); }
        }
        let l = self.p.len() - d;
        self.p[lenpos] = (l >> 8) as u8; self.p[lenpos + 1] = l as u8;
        let _ = section;
    }
}

/// a (mostly) well-formed packet.  opt_pos: 0 none, 1 first, 2 middle, 3 last, 4 random
pub fn gen_valid(r: &mut Rng, compress: bool) -> Vec<u8> {
    let qr = r.chance(2, 3);
    let mut g = Gen { r, p: vec![], label_starts: vec![], compress };
    let tid = g.r.next() as u16;
    put16(&mut g.p, tid);
    let mut flags = g.r.next() as u16;
    if qr { flags |= 0x8000 } else { flags &= 0x7fff }
    put16(&mut g.p, flags);
    // "far" family: one large opaque record first, so that the names after it -- and the pointers to them -- lie beyond offsets 1024 / 4096 / 8192
    let far = qr && g.r.chance(1, 10);
    let an = if qr { g.r.below(4) as usize + (if far { 2 } else { 0 }) } else { 0 };
    let ns = if qr { g.r.below(3) as usize } else { 0 };
    let mut ar = g.r.below(4) as usize;
    let with_opt = g.r.chance(1, 2);
    if with_opt { ar += 1; }
    put16(&mut g.p, 1); put16(&mut g.p, an as u16); put16(&mut g.p, ns as u16); put16(&mut g.p, ar as u16);
    g.name(false);
    let qt = *g.r.pick(&[1u16, 28, 15, 255]);
    put16(&mut g.p, qt); put16(&mut g.p, 1);
    for i in 0..an { if far && i == 0 { g.big_rr(); } else { g.rr(1, None); } }
    for _ in 0..ns { g.rr(2, None); }
    let opt_at = if with_opt { g.r.below(ar as u64) as usize } else { usize::MAX };
    for i in 0..ar { if i == opt_at { g.rr(3, Some(41)); } else { g.rr(3, None); } }
    g.p
}

/// damage a packet in a way that targets one clause of the policy
pub fn damage(r: &mut Rng, p: &mut Vec<u8>) {
    if p.is_empty() { return; }
    match r.below(14) {
        0 => { let i = r.below(p.len() as u64) as usize; p[i] ^= 1 << r.below(8); }
        1 => { let n = r.below(p.len() as u64 + 1) as usize; p.truncate(n); }
        2 => { p.push(r.next() as u8); }
        3 => { if p.len() >= 12 { let i = 4 + 2 * r.below(4) as usize + 1; p[i] = p[i].wrapping_add(if r.chance(1, 2) { 1 } else { 255 }); } }
        4 => { let i = r.below(p.len() as u64) as usize; p[i] = *r.pick(&[0u8, 63, 64, 0xc0, 0xff, b'.', b'\\', 31, 127, 1]); }
        5 => { if p.len() > 14 { let i = 12 + r.below((p.len() - 12) as u64) as usize; p[i] = p[i].wrapping_add(1); } }
        6 => { if p.len() > 14 { let i = 12 + r.below((p.len() - 12) as u64) as usize; p[i] = p[i].wrapping_sub(1); } }
        7 => { if p.len() >= 4 { p[2] ^= 0x80; } }
        8 => { // point a pointer somewhere else
            let idx: Vec<usize> = (12..p.len().saturating_sub(1)).filter(|&i| p[i] & 0xc0 == 0xc0).collect();
            if !idx.is_empty() { let i = *r.pick(&idx); let t = r.below(p.len() as u64) as usize; p[i] = 0xc0 | (t >> 8) as u8 & 0x3f; p[i + 1] = t as u8; } }
        9 => { let i = r.below(p.len() as u64) as usize; let b = r.next() as u8; p.insert(i, b); }
        10 => { let i = r.below(p.len() as u64) as usize; p.remove(i); }
        11 => { if p.len() >= 6 { p[5] = r.below(3) as u8; } }
        12 => { let n = r.below(4) as usize; for _ in 0..n { let i = r.below(p.len() as u64) as usize; p[i] = r.next() as u8; } }
        _ => { // duplicate the tail record-ish bytes
            if p.len() > 24 { let k = p.len() - 11; let tail = p[k..].to_vec(); p.extend(tail); } }
    }
}

pub fn gen_packet(r: &mut Rng) -> Vec<u8> {
    match r.below(10) {
        0 => { let n = r.below(40) as usize; r.bytes(n) }
        1..=4 => { let c = r.chance(3, 4); gen_valid(r, c) }
        _ => { let c = r.chance(3, 4); let mut p = gen_valid(r, c); let k = 1 + r.below(2); for _ in 0..k { damage(r, &mut p); } p }
    }
}

/// hand-made boundary family: long pointer chains (15/16/17), maximal names (254/255/256), labels 63/64
pub fn gen_boundary(r: &mut Rng) -> Vec<u8> {
    let mut p = vec![0u8, 1, 0x80, 0, 0, 1, 0, 1, 0, 0, 0, 0];
    match r.below(6) {
        5 => {
            // a name-bearing record (SOA, MX or NS) whose RDLENGTH exceeds what its names and fixed fields need (slack 0 = exact fit)
            let slack = *r.pick(&[0usize, 1, 2, 7, 20]);
            p.extend_from_slice(&[1, b'q', 0]); put16(&mut p, 1); put16(&mut p, 1);
            p.extend_from_slice(&[0xc0, 12]);
            let t = *r.pick(&[6u16, 15, 2]);
            put16(&mut p, t); put16(&mut p, 1); put32(&mut p, 7);
            let mut d: Vec<u8> = vec![];
            match t { 6 => { d.extend_from_slice(&[2, b'n', b's', 0xc0, 12]); d.extend_from_slice(&[1, b'h', 0xc0, 12]); d.extend_from_slice(&[0u8; 20]); }
                      15 => { d.extend_from_slice(&[0, 10, 2, b'm', b'x', 0xc0, 12]); }
                      _ => { d.extend_from_slice(&[2, b'n', b's', 0xc0, 12]); } }
            d.extend(std::iter::repeat(0x55u8).take(slack));
            put16(&mut p, d.len() as u16); p.extend(d);
            p[7] = 1;
        }
        4 => {
            // two OPT records in the additional section: the first with or without options, the second empty
            p.extend_from_slice(&[1, b'q', 0]); put16(&mut p, 1); put16(&mut p, 1);
            p[2] = if r.chance(1, 2) { 0x80 } else { 0 };
            let with_options = r.chance(1, 2);
            p.push(0); put16(&mut p, 41); put16(&mut p, 1232); put32(&mut p, 0);
            if with_options { put16(&mut p, 8); p.extend_from_slice(&[0, 10, 0, 4, 1, 2, 3, 4]); } else { put16(&mut p, 0); }
            p.push(0); put16(&mut p, 41); put16(&mut p, 1232); put32(&mut p, 0); put16(&mut p, 0);
            p[7] = 0; p[11] = 2;
        }
        3 => {
            // a DNAME record whose pointer-free target has total wire length n around the 255-byte limit
            let n = 253 + r.below(5) as usize;
            let mut name = vec![];
            while name.len() + 64 < n - 1 { name.push(63); name.extend(std::iter::repeat(b'd').take(63)); }
            let rest = n - 1 - name.len();
            if rest > 1 { name.push((rest - 1) as u8); name.extend(std::iter::repeat(b'e').take(rest - 1)); }
            name.push(0);
            p.extend_from_slice(&[1, b'q', 0]); put16(&mut p, 1); put16(&mut p, 1);
            p.extend_from_slice(&[0xc0, 12]); put16(&mut p, 39); put16(&mut p, 1); put32(&mut p, 7); put16(&mut p, name.len() as u16); p.extend(name);
            p[7] = 1;
        }
        0 => {
            // question name = chain of k pointers ending in a label
            let k = 14 + r.below(5) as usize;
            // layout: label at 12.., then pointers each pointing to the previous
            let mut q = vec![1u8, b'a', 0];
            let mut prev = 12usize;
            // place chain elements in the answer record's rdata is complex: instead put the chain in front of the question
            // header(12) | a\0 | ptr->12 | ptr->15 | ...   and the question name is the last pointer
            let mut body = q.clone();
            for i in 0..k { let t = if i == 0 { 12 } else { 15 + 2 * (i - 1) }; body.push(0xc0); body.push(t as u8); }
            // question starts at 12: it is "a\0" (valid); record with a name being the deep chain
            p.extend_from_slice(&body[..3]);
            put16(&mut p, 1); put16(&mut p, 1);
            // answer: owner name = pointer chain written before? emulate: owner = labels "b" + ptr chain to 12 via nested answers
            let mut off_names = vec![12usize];
            for i in 0..k {
                // each answer's owner: one label then pointer to the previous owner
                let here = p.len();
                p.push(1); p.push(b'b');
                let t = *off_names.last().unwrap();
                p.push(0xc0 | (t >> 8) as u8); p.push(t as u8);
                off_names.push(here);
                put16(&mut p, 1); put16(&mut p, 1); put32(&mut p, 1); put16(&mut p, 4); p.extend_from_slice(&[1, 2, 3, 4]);
                let _ = i;
            }
            p[7] = k as u8;
        }
        1 => {
            // name of total wire length n
            let n = 253 + r.below(4) as usize;
            let mut name = vec![];
            while name.len() + 64 < n - 1 { name.push(63); name.extend(std::iter::repeat(b'x').take(63)); }
            let rest = n - 1 - name.len();
            if rest > 1 { name.push((rest - 1) as u8); name.extend(std::iter::repeat(b'y').take(rest - 1)); }
            name.push(0);
            p.extend(name);
            put16(&mut p, 1); put16(&mut p, 1);
            p[7] = 0;
        }
        _ => {
            let l = 62 + r.below(3) as usize;
            p.push(l as u8); p.extend(std::iter::repeat(b'z').take(l)); p.push(0);
            put16(&mut p, 1); put16(&mut p, 1);
            p[7] = 0;
        }
    }
    p
}
