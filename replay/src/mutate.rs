//! C05 (uncompress), C06 (compress), C07 (rename), C08/C09/C10 (mutations keep the object coherent / exact effect / failure
//! atomicity), C11 (delete while iterating) replayed on the real crate against a reference model of the decoded message.
use crate::names::ref_name_to_wire;
use crate::util::*;
use crate::wire::{self, Msg, Rec};
use dnssector::*;
use std::net::IpAddr;

// ---------------------------------------------------------------------------------------------- decoded message (abstract view)
#[derive(Clone, Debug, PartialEq)]
pub struct MRec { pub name: Vec<u8>, pub rtype: u16, pub class: u16, pub ttl: u32, pub rdata: Vec<u8> }   // rdata with names expanded
#[derive(Clone, Debug, PartialEq)]
pub struct MMsg { pub hdr: Vec<u8>, pub q: Option<(Vec<u8>, u16, u16)>, pub secs: [Vec<MRec>; 3] }

fn expand_rdata(p: &[u8], r: &Rec) -> Vec<u8> {
    let d = r.name_end + 10;
    match r.rtype {
        2 | 5 | 12 => r.rdata_names[0].clone(),
        15 => { let mut v = p[d..d + 2].to_vec(); v.extend(&r.rdata_names[0]); v }
        6 => { let mut v = r.rdata_names[0].clone(); v.extend(&r.rdata_names[1]); v.extend(&p[r.end - 20..r.end]); v }
        _ => p[d..r.end].to_vec(),
    }
}
pub fn decode(p: &[u8]) -> Option<MMsg> {
    let m = wire::parse_ref(p)?;
    let mut secs: [Vec<MRec>; 3] = [vec![], vec![], vec![]];
    for r in &m.recs {
        secs[(r.section - 1) as usize].push(MRec { name: r.name.clone(), rtype: r.rtype, class: r.class, ttl: r.ttl, rdata: expand_rdata(p, r) });
    }
    let mut hdr = p[..4].to_vec();
    Some(MMsg { hdr, q: Some((m.qname.clone(), m.qtype, m.qclass)), secs })
}
/// structural decode that also accepts packets without a question / with answers in a query (policy clauses of C02 dropped)
pub fn decode_struct(p: &[u8]) -> Option<MMsg> {
    if p.len() < 12 { return None; }
    let qd = be16(p, 4);
    if qd > 1 { return None; }
    let mut off = 12;
    let mut q = None;
    if qd == 1 { let (e, n) = wire::name_walk(p, 12)?; if e + 4 > p.len() { return None; } q = Some((n, be16(p, e), be16(p, e + 2))); off = e + 4; }
    let mut secs: [Vec<MRec>; 3] = [vec![], vec![], vec![]];
    let mut seen = false;
    for s in 0..3 {
        for _ in 0..be16(p, 6 + 2 * s) {
            let r = wire::parse_rr(p, off, (s + 1) as u8, seen)?;
            if r.rtype == 41 { seen = true; }
            off = r.end;
            secs[s].push(MRec { name: r.name.clone(), rtype: r.rtype, class: r.class, ttl: r.ttl, rdata: expand_rdata(p, &r) });
        }
    }
    if off != p.len() { return None; }
    Some(MMsg { hdr: p[..4].to_vec(), q, secs })
}
fn lower_names(m: &MMsg) -> MMsg {
    // names compared case-insensitively: lower-case owner names and the names inside understood rdata
    let lw = |v: &Vec<u8>| -> Vec<u8> { v.iter().map(|c| c.to_ascii_lowercase()).collect() };
    let mut m = m.clone();
    if let Some(q) = &mut m.q { q.0 = lw(&q.0); }
    for s in m.secs.iter_mut() { for r in s.iter_mut() { r.name = lw(&r.name);
        match r.rtype { 2 | 5 | 12 => r.rdata = lw(&r.rdata),
                        15 => { let t = lw(&r.rdata[2..].to_vec()); r.rdata.truncate(2); r.rdata.extend(t); }
                        6 => { let n = r.rdata.len() - 20; let t = lw(&r.rdata[..n].to_vec()); let tail = r.rdata[n..].to_vec(); r.rdata = t; r.rdata.extend(tail); }
                        _ => {} } } }
    m
}
/// pointer-free re-encoding of a decoded message (the specification of uncompress)
pub fn encode(m: &MMsg) -> Vec<u8> {
    let mut p = m.hdr.clone();
    put16(&mut p, if m.q.is_some() { 1 } else { 0 });
    for s in 0..3 { put16(&mut p, m.secs[s].len() as u16); }
    if let Some(q) = &m.q { p.extend(&q.0); put16(&mut p, q.1); put16(&mut p, q.2); }
    for s in 0..3 { for r in &m.secs[s] { p.extend(&r.name); put16(&mut p, r.rtype); put16(&mut p, r.class); put32(&mut p, r.ttl); put16(&mut p, r.rdata.len() as u16); p.extend(&r.rdata); } }
    p
}

/// C08: the object's own view equals a fresh parse of its bytes
fn coherent(pp: &mut ParsedPacket, strict: bool) -> Result<(), String> {
    let bytes = pp.packet.clone().ok_or("packet is None")?;
    let fresh = DNSSector::new(bytes.clone()).unwrap().parse();
    let fresh = match fresh {
        Ok(f) => f,
        Err(e) => {
            if strict { return Err(format!("bytes are not accepted by the parser: {} ({})", e, hex(&bytes))); }
            // policy-level exceptions (no question / answers in a query): fall back to the structural decode
            if decode_struct(&bytes).is_none() { return Err(format!("bytes are not even structurally well-formed: {} ({})", e, hex(&bytes))); }
            return coherent_struct(pp, &bytes);
        }
    };
    if pp.offset_question != fresh.offset_question || pp.offset_answers != fresh.offset_answers || pp.offset_nameservers != fresh.offset_nameservers
        || pp.offset_additional != fresh.offset_additional { return Err(format!("section offsets {:?} {:?} {:?} {:?} differ from a fresh parse {:?} {:?} {:?} {:?}",
            pp.offset_question, pp.offset_answers, pp.offset_nameservers, pp.offset_additional, fresh.offset_question, fresh.offset_answers, fresh.offset_nameservers, fresh.offset_additional)); }
    if pp.offset_edns != fresh.offset_edns { return Err(format!("offset_edns {:?} vs fresh {:?}", pp.offset_edns, fresh.offset_edns)); }
    if pp.edns_count != fresh.edns_count || pp.ext_rcode != fresh.ext_rcode || pp.edns_version != fresh.edns_version || pp.ext_flags != fresh.ext_flags {
        return Err("EDNS summary differs from a fresh parse".into()); }
    if !pp.maybe_compressed && bytes[12..].iter().enumerate().any(|(_, _)| false) { }
    // the cached question
    let m = wire::parse_ref(&bytes).ok_or("reference rejects accepted bytes")?;
    if let Some(q) = pp.question_raw0() { if q.0 != &m.qname[..] || q.1 != m.qtype || q.2 != m.qclass { return Err("cached question is stale".into()); } } else { return Err("question_raw0 none".into()); }
    if !pp.maybe_compressed {
        // "the flag saying the bytes may contain pointers": when it says no, there must be none in any understood name
        let u = Compress::uncompress(&bytes).map_err(|e| e.to_string())?;
        if u != bytes { return Err("maybe_compressed is false but the bytes are not pointer-free".into()); }
    }
    Ok(())
}
fn coherent_struct(pp: &mut ParsedPacket, bytes: &[u8]) -> Result<(), String> {
    let qd = be16(bytes, 4);
    let mut off = 12;
    if qd == 1 { off = wire::name_walk(bytes, 12).unwrap().0 + 4; if pp.offset_question != Some(12) { return Err("offset_question".into()); } } else if pp.offset_question.is_some() { return Err("offset_question should be None".into()); }
    let want = |n: u16, off: usize| if n > 0 { Some(off) } else { None };
    let mut starts = [None; 3];
    let mut seen = false;
    for s in 0..3 { starts[s] = want(be16(bytes, 6 + 2 * s), off); for _ in 0..be16(bytes, 6 + 2 * s) { let r = wire::parse_rr(bytes, off, (s + 1) as u8, seen).unwrap(); if r.rtype == 41 { seen = true; } off = r.end; } }
    if pp.offset_answers != starts[0] || pp.offset_nameservers != starts[1] || pp.offset_additional != starts[2] { return Err("section offsets differ from the structural decode".into()); }
    Ok(())
}

// ---------------------------------------------------------------------------------------------- operations
#[derive(Clone, Debug)]
enum Op {
    SetFlags(u32), SetTid(u16), SetRcode(u8), SetOpcode(u8), SetResponse(bool),
    SetName(u8, usize, Vec<u8>),       // section (0 question, 1..3), record index, new raw name
    Delete(u8, usize),
    SetTtl(u8, usize, u32),
    SetIp(u8, usize, Vec<u8>),
    Insert(u8, String),                // section, record text
    Recompute,
    Uncompress(u8, usize),             // through an iterator positioned at record index
    Rename(Vec<u8>, Vec<u8>, bool),
    WalkDelete(u8, u64),               // C11: walk a section deleting the records whose bit is set
    InsertQuestion(Vec<u8>),           // text name, type A, class IN
}
fn op_to_str(o: &Op) -> String {
    match o {
        Op::SetFlags(v) => format!("flags:{}", v), Op::SetTid(v) => format!("tid:{}", v), Op::SetRcode(v) => format!("rcode:{}", v),
        Op::SetOpcode(v) => format!("opcode:{}", v), Op::SetResponse(v) => format!("resp:{}", *v as u8),
        Op::SetName(s, k, n) => format!("name:{}:{}:{}", s, k, hex(n)), Op::Delete(s, k) => format!("del:{}:{}", s, k),
        Op::SetTtl(s, k, v) => format!("ttl:{}:{}:{}", s, k, v), Op::SetIp(s, k, ip) => format!("ip:{}:{}:{}", s, k, hex(ip)),
        Op::Insert(s, t) => format!("ins:{}:{}", s, hex(t.as_bytes())), Op::Recompute => "recompute".into(),
        Op::Uncompress(s, k) => format!("unc:{}:{}", s, k), Op::Rename(t, s, x) => format!("ren:{}:{}:{}", hex(t), hex(s), *x as u8),
        Op::WalkDelete(s, m) => format!("wdel:{}:{}", s, m),
        Op::InsertQuestion(n) => format!("insq:{}", hex(n)),
    }
}
fn op_from_str(s: &str) -> Result<Op, String> {
    let f: Vec<&str> = s.split(':').collect();
    let n = |i: usize| -> Result<u64, String> { f.get(i).ok_or("missing field")?.parse::<u64>().map_err(|e| e.to_string()) };
    Ok(match f[0] {
        "flags" => Op::SetFlags(n(1)? as u32), "tid" => Op::SetTid(n(1)? as u16), "rcode" => Op::SetRcode(n(1)? as u8), "opcode" => Op::SetOpcode(n(1)? as u8),
        "resp" => Op::SetResponse(n(1)? != 0), "name" => Op::SetName(n(1)? as u8, n(2)? as usize, unhex(f[3])?), "del" => Op::Delete(n(1)? as u8, n(2)? as usize),
        "ttl" => Op::SetTtl(n(1)? as u8, n(2)? as usize, n(3)? as u32), "ip" => Op::SetIp(n(1)? as u8, n(2)? as usize, unhex(f[3])?),
        "ins" => Op::Insert(n(1)? as u8, String::from_utf8(unhex(f[2])?).map_err(|e| e.to_string())?), "recompute" => Op::Recompute,
        "unc" => Op::Uncompress(n(1)? as u8, n(2)? as usize), "ren" => Op::Rename(unhex(f[1])?, unhex(f[2])?, n(3)? != 0),
        "wdel" => Op::WalkDelete(n(1)? as u8, n(2)?),
        "insq" => Op::InsertQuestion(unhex(f[1])?),
        _ => return Err(format!("unknown op {}", s)),
    })
}
fn sec_of(s: u8) -> Section { match s { 0 => Section::Question, 1 => Section::Answer, 2 => Section::NameServers, _ => Section::Additional } }

/// model of replace on one expanded name (C07)
fn model_replace(name: &[u8], target: &[u8], source: &[u8], suffix: bool) -> Result<Option<Vec<u8>>, ()> {
    if name.len() < source.len() || (!suffix && name.len() != source.len()) { return Ok(None); }
    let off = name.len() - source.len();
    // label boundary?
    let mut i = 0; let mut boundary = false;
    while i < name.len() { if i == off { boundary = true; break; } if name[i] == 0 { break; } i += name[i] as usize + 1; }
    if !boundary { return Ok(None); }
    if !name[off..].eq_ignore_ascii_case(source) { return Ok(None); }
    if off + target.len() > 255 { return Err(()); }
    let mut v = name[..off].to_vec(); v.extend_from_slice(target); Ok(Some(v))
}
fn model_rename(m: &MMsg, t: &[u8], s: &[u8], suffix: bool) -> Result<MMsg, ()> {
    let mut m = m.clone();
    let rn = |n: &Vec<u8>| -> Result<Vec<u8>, ()> { Ok(model_replace(n, t, s, suffix)?.unwrap_or_else(|| n.clone())) };
    if let Some(q) = &mut m.q { q.0 = rn(&q.0)?; }
    for sec in m.secs.iter_mut() { for r in sec.iter_mut() {
        r.name = rn(&r.name)?;
        match r.rtype {
            2 | 5 | 12 => r.rdata = rn(&r.rdata)?,
            15 => { let x = rn(&r.rdata[2..].to_vec())?; r.rdata.truncate(2); r.rdata.extend(x); }
            6 => { let n1 = wire::plain_walk(&r.rdata, 0).ok_or(())?; let n2 = wire::plain_walk(&r.rdata, n1).ok_or(())?;
                   let a = rn(&r.rdata[..n1].to_vec())?; let b = rn(&r.rdata[n1..n2].to_vec())?; let tail = r.rdata[n2..].to_vec(); r.rdata = a; r.rdata.extend(b); r.rdata.extend(tail); }
            _ => {}
        } } }
    Ok(m)
}

/// iterate to record `k` (0-based, OPT included for the additional section) of a response section and run `f` on the item
fn with_item<R>(pp: &mut ParsedPacket, s: u8, k: usize, f: impl FnOnce(&mut ResponseIterator<'_>) -> R) -> Option<R> {
    let mut it = match s { 1 => pp.into_iter_answer(), 2 => pp.into_iter_nameservers(), _ => pp.into_iter_additional_including_opt() };
    let mut i = 0;
    while let Some(mut item) = it {
        if i == k { return Some(f(&mut item)); }
        i += 1;
        it = item.next_including_opt();
    }
    None
}

struct Outcome { model: MMsg, failed: bool }

/// the byte range a non-resizing setter is entitled to write, located in the bytes as they were before the call
fn in_place_window(before: &[u8], op: &Op) -> Option<(usize, usize)> {
    let rec = |s: u8, k: usize| -> Option<wire::Rec> { wire::parse_ref(before)?.recs.into_iter().filter(|r| r.section == s).nth(k) };
    match op {
        Op::SetFlags(_) | Op::SetRcode(_) | Op::SetOpcode(_) | Op::SetResponse(_) => Some((2, 4)),
        Op::SetTid(_) => Some((0, 2)),
        Op::SetTtl(s, k, _) => rec(*s, *k).map(|r| (r.name_end + 4, r.name_end + 8)),
        Op::SetIp(s, k, _) => rec(*s, *k).map(|r| (r.name_end + 10, r.end)),
        _ => None,
    }
}

/// applies one operation to the real object and to the model; returns Err(description) on a property violation
fn apply(pp: &mut ParsedPacket, model: &MMsg, op: &Op, prop: &str) -> Result<Outcome, String> {
    let mut m = model.clone();
    let before_bytes = pp.packet.clone().unwrap();
    let mut failed = false;
    match op {
        Op::SetFlags(v) => { pp.set_flags(*v); let w = be16(&m.hdr, 2); let nw = (w & 0x780f) | ((*v as u16) & 0x87f0); m.hdr[2] = (nw >> 8) as u8; m.hdr[3] = nw as u8; }
        Op::SetTid(v) => { pp.set_tid(*v); m.hdr[0] = (*v >> 8) as u8; m.hdr[1] = *v as u8; }
        Op::SetRcode(v) => { pp.set_rcode(*v); m.hdr[3] = (m.hdr[3] & 0xf0) | (*v & 0x0f); }
        Op::SetOpcode(v) => { pp.set_opcode(*v); m.hdr[2] = (m.hdr[2] & 0x87) | ((*v & 0x0f) << 3); }
        Op::SetResponse(v) => { pp.set_response(*v); m.hdr[2] = (m.hdr[2] & 0x7f) | if *v { 0x80 } else { 0 }; }
        Op::SetName(s, k, n) => {
            let valid = wire::name_walk(n, 0).is_some();       // the parser's name policy; a stand-alone name cannot contain a (backward) pointer
            let r = if *s == 0 {
                let mut it = pp.into_iter_question();
                match it.as_mut() { Some(item) => Some(item.set_raw_name(n).map(|_| { let t = item.rr_type(); (item.name(), t) })), None => None }
            } else {
                with_item(pp, *s, *k, |item| { let before_next: Option<Vec<u8>> = None; let _ = before_next;
                    item.set_raw_name(n).map(|_| (item.name(), item.rr_type())) })
            };
            match r {
                None => return Ok(Outcome { model: m, failed: false }),    // no such record: nothing happened
                Some(Ok((readback, rtype))) => {
                    if !valid { return Err("set_raw_name accepted an invalid name".into()); }
                    if pp.packet.as_ref().map(|p| p.len()).unwrap_or(0) > 0xffff { return Err("set_raw_name produced a packet larger than 65535 bytes".into()); }
                    let nn = n[..wire::name_walk(n, 0).unwrap().0].to_vec();
                    if *s == 0 { if let Some(q) = &mut m.q { q.0 = nn.clone(); } } else { let rec = &mut m.secs[(*s - 1) as usize][*k]; rec.name = nn.clone(); if rec.rtype != rtype { return Err("iterator no longer designates the record after set_raw_name".into()); } }
                    if !nn.iter().any(|&c| wire::bad_char(c) && c != 0) || true { if readback != wire::to_text(&nn) { return Err(format!("name reads back as {:?}", String::from_utf8_lossy(&readback))); } }
                }
                Some(Err(_)) => { failed = true;
                    if valid {
                        // the one legitimate refusal of a valid name: the (pointer-free) packet would exceed 65535 bytes
                        let mut after = m.clone();
                        let nn = n[..wire::name_walk(n, 0).unwrap().0].to_vec();
                        if *s == 0 { if let Some(q) = &mut after.q { q.0 = nn; } } else if let Some(rec) = after.secs[(*s - 1) as usize].get_mut(*k) { rec.name = nn; }
                        if encode(&after).len() <= 0xffff { return Err("set_raw_name rejected a valid name".into()); }
                    } }
            }
        }
        Op::Delete(s, k) => {
            let r = if *s == 0 { let mut it = pp.into_iter_question(); match it.as_mut() { Some(item) => Some(item.delete()), None => None } }
                    else { with_item(pp, *s, *k, |item| { let r = item.delete(); if r.is_ok() { if item.delete().is_ok() { return Err(anyhow_str("second delete through the same cursor succeeded")); } } r.map_err(|e| e) }) };
            match r { None => {}, Some(Ok(())) => { if *s == 0 { m.q = None; } else { m.secs[(*s - 1) as usize].remove(*k); } }, Some(Err(e)) => { if e.to_string().contains("second delete") { return Err(e.to_string()); } failed = true; } }
        }
        Op::SetTtl(s, k, v) => { if with_item(pp, *s, *k, |item| item.set_rr_ttl(*v)).is_some() { m.secs[(*s - 1) as usize][*k].ttl = *v; } }
        Op::SetIp(s, k, ip) => {
            let addr: IpAddr = if ip.len() == 4 { IpAddr::from([ip[0], ip[1], ip[2], ip[3]]) } else { let mut b = [0u8; 16]; b.copy_from_slice(&ip[..16]); IpAddr::from(b) };
            if let Some(r) = with_item(pp, *s, *k, |item| item.set_rr_ip(&addr)) {
                let rec = &mut m.secs[(*s - 1) as usize][*k];
                let fits = (rec.rtype == 1 && ip.len() == 4) || (rec.rtype == 28 && ip.len() == 16);
                match r { Ok(()) => { if !fits { return Err("set_rr_ip accepted a wrong family/type".into()); } rec.rdata = ip.clone(); }, Err(_) => { failed = true; if fits { return Err("set_rr_ip rejected a matching address".into()); } } }
            }
        }
        Op::Insert(s, text) => {
            if *s == 0 { return Ok(Outcome { model: m, failed: false }); }    // resource records do not go into the question section
            let rr = match r#gen::RR::from_string(text) { Ok(rr) => rr, Err(_) => return Ok(Outcome { model: m, failed: false }) };
            let rrm = { // decode the record through a scratch packet
                let mut sp: Vec<u8> = vec![0, 0, 0x80, 0, 0, 1, 0, 1, 0, 0, 0, 0, 1, b'q', 0, 0, 1, 0, 1]; sp.extend(&rr.packet);
                let d = decode(&sp).ok_or("synthesised record does not decode")?; d.secs[0][0].clone() };
            let r = pp.insert_rr(sec_of(*s), rr);
            let after_len = pp.packet.as_ref().unwrap().len();
            match r {
                Ok(()) => { if after_len > 8192 { return Err(format!("insert_rr produced a packet of {} bytes (> 8192)", after_len)); } m.secs[(*s - 1) as usize].push(rrm); }
                Err(_) => { failed = true; }
            }
        }
        Op::InsertQuestion(name) => {
            let rr = match r#gen::RR::new_question(name, Type::A, Class::IN) { Ok(rr) => rr, Err(_) => return Ok(Outcome { model: m, failed: false }) };
            let r = pp.insert_rr(Section::Question, rr);
            match r {
                Ok(()) => { if m.q.is_some() { return Err("a second question was accepted".into()); }
                            m.q = Some((ref_name_to_wire(name, None).ok_or("reference rejects the name")?, 1, 1)); }
                Err(_) => { failed = true; if m.q.is_none() && pp.packet.as_ref().unwrap().len() + name.len() + 6 <= 8192 { return Err("a first question was rejected".into()); } }
            }
        }
        Op::Recompute => { if pp.recompute().is_err() { failed = true; } }
        Op::Uncompress(4, k) => {
            // through an EDNS option cursor (section 4 = the option list of the OPT record)
            let mut it = pp.into_iter_edns();
            let mut i = 0;
            while let Some(mut item) = it {
                if i == *k { if item.uncompress().is_err() { failed = true; } break; }
                i += 1;
                it = item.next();
            }
        }
        Op::Uncompress(s, k) => {
            let r = with_item(pp, *s, *k, |item| { let t = item.rr_type(); let n = item.name(); item.uncompress().map(|_| (t == item.rr_type() && n == item.name(), { let mut v: Vec<(u16, Vec<u8>)> = vec![]; v })) });
            if let Some(r) = r { match r { Ok((same, _)) => { if !same { return Err("iterator designates another record after uncompress()".into()); } }, Err(_) => failed = true } }
        }
        Op::Rename(t, s, x) => {
            if t.len() <= 1 || s.len() <= 1 { return Ok(Outcome { model: m, failed: false }); }     // C07 quantifies over non-root names
            // rename re-parses: it is defined on accepted packets only (a query that was given answers is not one)
            let policy_ok = m.q.is_some() && (m.hdr[2] & 0x80 != 0 || (m.secs[0].is_empty() && m.secs[1].is_empty()));
            if !policy_ok { return Ok(Outcome { model: m, failed: false }); }
            let r = pp.rename_with_raw_names(t, s, *x);
            let mut expect = model_rename(&m, t, s, *x);
            // a target with well-formed labels that the parser's name policy rejects: if it ends up in the message the call must fail (C10)
            if let Ok(mm) = &expect { if wire::parse_ref(&encode(mm)).is_none() { if r.is_ok() { return Err("rename returned a packet the parser rejects".into()); } expect = Err(()); } }
            match (r, expect) {
                (Ok(()), Ok(mm)) => { m = mm; }
                (Ok(()), Err(())) => return Err("rename produced a packet although a rewritten name exceeds 255 bytes".into()),
                (Err(e), Ok(_)) => return Err(format!("rename failed although every rewritten name fits: {}", e)),
                (Err(_), Err(())) => { failed = true; }
            }
        }
        Op::WalkDelete(s, mask) => {
            let before = m.secs[(*s - 1) as usize].clone();
            let mut survivors = vec![];
            let mut yielded_after_delete = false;
            let mut it = match s { 1 => pp.into_iter_answer(), 2 => pp.into_iter_nameservers(), _ => pp.into_iter_additional() };
            let mut steps = 0;
            // index into `before` of the record under the cursor: found by content (records are made distinct by the generator's TTLs)
            let mut deleted: Vec<bool> = vec![false; before.len()];
            let mut seen: Vec<bool> = vec![false; before.len()];
            while let Some(mut item) = it {
                steps += 1;
                if steps > 10 * (before.len() + 2) { return Err("walk with deletions does not terminate".into()); }
                let ttl = item.rr_ttl(); let ty = item.rr_type();
                let idx = before.iter().position(|r| r.ttl == ttl && r.rtype == ty);
                let idx = match idx { Some(i) => i, None => return Err("walk yielded a record that is not in the section".into()) };
                if deleted[idx] { yielded_after_delete = true; }
                seen[idx] = true;
                if (mask >> idx) & 1 == 1 && !deleted[idx] {
                    if let Err(e) = item.delete() { return Err(format!("delete failed: {}", e)); }
                    match item.delete() { Err(_) => {}, Ok(()) => return Err("second delete through the same cursor succeeded".into()) }
                    deleted[idx] = true;
                }
                it = item.next();
            }
            if yielded_after_delete { return Err("a deleted record was yielded again".into()); }
            // "every surviving record is yielded at least once" (all but the OPT record, which these walks never show)
            for (i, r) in before.iter().enumerate() { if !deleted[i] && !seen[i] && r.rtype != 41 { return Err(format!("surviving record {} of section {} was never yielded by the walk", i, s)); } }
            for (i, r) in before.iter().enumerate() { if !deleted[i] || r.rtype == 41 && (mask >> i) & 1 == 1 && false { if !deleted[i] { survivors.push(r.clone()); } } }
            m.secs[(*s - 1) as usize] = survivors;
        }
    }
    let _ = (before_bytes, prop);
    Ok(Outcome { model: m, failed })
}
fn anyhow_str(s: &str) -> Error { anyhow!(s.to_string()) }

fn msg_eq(a: &MMsg, b: &MMsg) -> bool { lower_names(a) == lower_names(b) }

/// ops: seq <hex packet> <op> <op> ...   |  unc <hex> [ref_offset]  |  cmp <hex>  |  ren <hex> <hextarget> <hexsource> <0|1>
pub fn replay(prop: &str, a: &[&str]) -> Result<(), String> {
    match a.get(0).copied().unwrap_or("") {
        "unc" => {
            let p = unhex(a[1])?;
            let m = match wire::parse_ref(&p) { Some(m) => m, None => return Ok(()) };
            let want = encode(&decode(&p).unwrap());
            let mut boundaries: Vec<usize> = vec![12]; boundaries.extend(m.recs.iter().map(|r| r.off)); boundaries.push(p.len());
            // expected boundary map
            let u = Compress::uncompress(&p).map_err(|e| format!("uncompress failed on an accepted packet: {}", e))?;
            if u != want { return Err(format!("uncompress = {}, expected {}", hex(&u), hex(&want))); }
            if wire::parse_ref(&u).is_none() { return Err("uncompressed packet is not accepted".into()); }
            let u2 = Compress::uncompress(&u).map_err(|e| e.to_string())?;
            if u2 != u { return Err("second decompression changes the packet".into()); }
            let mu = wire::parse_ref(&u).unwrap();
            let mut ub: Vec<usize> = vec![12]; ub.extend(mu.recs.iter().map(|r| r.off)); ub.push(u.len());
            for (i, &b) in boundaries.iter().enumerate() {
                let (_, nb) = Compress::uncompress_with_previous_offset(&p, b).map_err(|e| e.to_string())?;
                if nb != ub[i] { return Err(format!("boundary {} of the input maps to {}, expected {}", b, nb, ub[i])); }
            }
            Ok(())
        }
        "cmp" => {
            let p0 = unhex(a[1])?;
            if wire::parse_ref(&p0).is_none() { return Ok(()); }
            let p = encode(&decode(&p0).unwrap());           // C06 quantifies over accepted pointer-free packets
            if wire::parse_ref(&p).is_none() { return Ok(()); }
            let c = Compress::compress(&p).map_err(|e| format!("compress failed: {}", e))?;
            if c.len() > p.len() { return Err(format!("compressed packet is longer ({} > {})", c.len(), p.len())); }
            let mc = match decode(&c) { Some(m) => m, None => return Err(format!("compressed packet is not accepted: {}", hex(&c))) };
            let mp = decode(&p).unwrap();
            if !msg_eq(&mc, &mp) { return Err(format!("message changed by compression: {}", hex(&c))); }
            if mc.q != mp.q { return Err("question name not byte-identical".into()); }
            let u = Compress::uncompress(&c).map_err(|e| e.to_string())?;
            if u.to_ascii_lowercase() != p.to_ascii_lowercase() && lower_names(&decode(&u).unwrap()) != lower_names(&mp) { return Err("decompressing the result does not give back the input".into()); }
            Ok(())
        }
        "ren" => {
            let p = unhex(a[1])?; let t = unhex(a[2])?; let s = unhex(a[3])?; let x = a[4] != "0";
            let m0 = match decode(&p) { Some(m) => m, None => return Ok(()) };
            let mut pp = DNSSector::new(p.clone()).unwrap().parse().map_err(|e| e.to_string())?;
            let r = pp.rename_with_raw_names(&t, &s, x);
            let mut expect = model_rename(&m0, &t, &s, x);
            if let Ok(mm) = &expect { if wire::parse_ref(&encode(mm)).is_none() { if r.is_ok() { return Err("rename returned a packet the parser rejects".into()); } expect = Err(()); } }
            match (r, expect) {
                (Ok(()), Ok(mm)) => {
                    let bytes = pp.packet.clone().ok_or("packet is None after rename")?;
                    let got = decode(&bytes).ok_or_else(|| format!("renamed packet is not accepted: {}", hex(&bytes)))?;
                    if !msg_eq(&got, &mm) { return Err(format!("renamed message differs from the specification: {}", hex(&bytes))); }
                    coherent(&mut pp, true)
                }
                (Ok(()), Err(())) => Err("rename produced a packet although a rewritten name exceeds 255 bytes".into()),
                (Err(e), Ok(_)) => Err(format!("rename failed although every rewritten name fits: {}", e)),
                (Err(_), Err(())) => { // C10: a failed rename changes nothing
                    let bytes = pp.packet.clone().ok_or("packet is None after a failed rename")?;
                    if !msg_eq(&decode(&bytes).ok_or("bytes not accepted after a failed rename")?, &m0) { return Err("failed rename changed the message".into()); }
                    coherent(&mut pp, true) }
            }
        }
        "seq" | "seqstrict" => {
            // seqstrict: the policy clauses of the parser (one question, no answers in a query) are not excused
            let always_strict = a[0] == "seqstrict";
            let p = unhex(a[1])?;
            let mut model = match decode(&p) { Some(m) => m, None => return Ok(()) };
            let mut pp = DNSSector::new(p.clone()).unwrap().parse().map_err(|e| e.to_string())?;
            let mut opt_touched = false;
            for os in &a[2..] {
                let op = op_from_str(os)?;
                let before = model.clone();
                // known policy corner: the OPT record edited through the generic record accessors
                let on_opt = match &op { Op::SetName(3, k, _) | Op::SetTtl(3, k, _) => model.secs[2].get(*k).map_or(false, |r| r.rtype == 41), _ => false };
                // the damage may only surface at a later operation (e.g. the assert_eq!s of recompute), so the tag sticks to the rest of the sequence
                if on_opt { opt_touched = true; }
                let tag = if opt_touched { "[OPT record edited through a generic accessor] " } else { "" };
                // C10 asks that a FAILED operation keeps the C08 invariant: only meaningful if it held before the call
                let pre_policy = before.q.is_some() && (before.hdr[2] & 0x80 != 0 || (before.secs[0].is_empty() && before.secs[1].is_empty()));
                let pre_ok = prop != "c10" || coherent(&mut pp, pre_policy).is_ok();
                let bytes_before = pp.packet.clone().unwrap_or_default();
                let r = std::panic::catch_unwind(std::panic::AssertUnwindSafe(|| -> Result<(), String> {
                let out = apply(&mut pp, &model, &op, prop).map_err(|e| format!("{} at op {}", e, os))?;
                model = out.model;
                let bytes = pp.packet.clone().ok_or(format!("packet is None after {}", os))?;
                let got = decode_struct(&bytes).ok_or_else(|| format!("bytes no longer decode after {} ({})", os, hex(&bytes)))?;
                if out.failed && !msg_eq(&got, &before) { return Err(format!("failed operation {} changed the message", os)); }
                if !msg_eq(&got, &model) {
                    // known corner of in-place field writes on a packet that still holds pointers: the write lands exactly where it should,
                    // but some other name reads those bytes through a compression pointer
                    let inplace = in_place_window(&bytes_before, &op).map_or(false, |(lo, hi)| bytes.len() == bytes_before.len()
                        && (0..bytes.len()).all(|i| bytes[i] == bytes_before[i] || (lo <= i && i < hi)));
                    let t2 = if inplace { "[in-place write read through a compression pointer] " } else { "" };
                    return Err(format!("{}after {} the message is {} but the specification says {}", t2, os, hex(&encode(&got)), hex(&encode(&model)))); }
                let policy_ok = model.q.is_some() && (model.hdr[2] & 0x80 != 0 || (model.secs[0].is_empty() && model.secs[1].is_empty()));
                // C09 is about the decoded message only; C10 about failed operations only; C08 and C11 check the object view after every step
                let check_view = match prop { "c09" => false, "c10" => out.failed && pre_ok, _ => true };
                if check_view { coherent(&mut pp, policy_ok || always_strict).map_err(|e| format!("{} after {}", e, os))?; }
                Ok(()) })).unwrap_or_else(|p| Err(format!("panic: {}", p.downcast_ref::<&str>().map(|s| s.to_string()).or_else(|| p.downcast_ref::<String>().cloned()).unwrap_or_default())));
                r.map_err(|e| format!("{}{}", tag, e))?;
            }
            Ok(())
        }
        _ => Err("usage: <prop> seq|unc|cmp|ren ...".into()),
    }
}

// ---------------------------------------------------------------------------------------------- generators
fn gen_raw_name(r: &mut Rng) -> Vec<u8> {
    let mut v = vec![];
    let nl = r.below(4) as usize;
    for _ in 0..nl { let n = match r.below(12) { 0 => 63, 1 => 40, _ => 1 + r.below(6) as usize }; v.push(n as u8); for _ in 0..n { v.push(*r.pick(b"abcXYZ019-_")); } }
    v.push(0);
    v
}
fn distinct_ttls(p: &mut Vec<u8>) {
    // make records distinguishable: TTL := running index (keeps the packet well-formed)
    if let Some(m) = wire::parse_ref(p) { for (i, r) in m.recs.iter().enumerate() { if r.rtype != 41 { let o = r.name_end + 4; p[o] = 0; p[o + 1] = 0; p[o + 2] = (i >> 8) as u8; p[o + 3] = (i & 0xff) as u8 | 0x00; p[o + 1] = 1; } } }
}
fn text_rr(r: &mut Rng) -> String {
    match r.below(5) {
        0 => format!("ins{}.example 3600 IN A 10.0.{}.{}", r.below(9), r.below(255), r.below(255)),
        1 => format!("ns.example 300 IN NS ns{}.Example.com", r.below(9)),
        2 => format!("m.example 5 IN MX {} mail.example.com", r.below(100)),
        3 => format!("z.example 7 IN SOA ns.z.example h.z.example (1 2 3 4 {})", r.below(9)),
        _ => format!("t.example 9 IN TXT \"{}\"", "x".repeat(1 + r.below(300) as usize)),
    }
}

pub fn gen(prop: &str, r: &mut Rng, _filter: &str) -> Vec<String> {
    let c = r.chance(3, 4);
    let mut p = wire::gen_valid(r, c);
    if wire::parse_ref(&p).is_none() { return vec![]; }
    match prop {
        "c05" => vec![prop.into(), "unc".into(), hex(&p)],
        "c06" => {
            if r.chance(1, 6) {
                // boundary families of C06: nested suffixes (deeper than 16), more than 32 suffixes, suffixes beyond 127 bytes,
                // names beyond offset 16383, mixed-case duplicates
                let mut q: Vec<u8> = vec![0, 7, 0x80, 0, 0, 1, 0, 0, 0, 0, 0, 0, 1, b'q', 0, 0, 1, 0, 1];
                let mut n = 0u16;
                let fam = r.below(5);
                let depth = 18 + r.below(8) as usize;
                let mut rec = |q: &mut Vec<u8>, name: &[u8]| { q.extend_from_slice(name); q.extend_from_slice(&[0, 1, 0, 1, 0, 0, 0, 1, 0, 4, 1, 2, 3, 4]); };
                match fam {
                    4 => { // nested suffixes that lie beyond the first KiB / 4 KiB of the output (one big opaque record first)
                        let big = *r.pick(&[1100usize, 4200]);
                        q.extend_from_slice(&[1, b'z', 0, 0, 99, 0, 1, 0, 0, 0, 1, (big >> 8) as u8, big as u8]); q.extend(std::iter::repeat(0u8).take(big)); n += 1;
                        for d in 1..=depth { let mut name = vec![]; for k in (1..=d).rev() { name.push(2); name.push(b'a' + (k % 26) as u8); name.push(b'0' + (k / 26) as u8); } name.push(0); rec(&mut q, &name); n += 1; } }
                    0 => { // l1 ; l2.l1 ; l3.l2.l1 ; ...
                        for d in 1..=depth { let mut name = vec![]; for k in (1..=d).rev() { name.push(2); name.push(b'a' + (k % 26) as u8); name.push(b'0' + (k / 26) as u8); } name.push(0); rec(&mut q, &name); n += 1; } }
                    1 => { // many distinct suffixes, then repeats (mixed case)
                        for d in 0..40 { let name = vec![3, b'n', b'a' + (d % 26) as u8, b'a' + (d / 26) as u8, 3, b'c', b'o', b'm', 0]; rec(&mut q, &name); n += 1; }
                        for d in 0..40 { let name = vec![1, b'w', 3, b'N', b'A' + (d % 26) as u8, b'a' + (d / 26) as u8, 3, b'C', b'o', b'M', 0]; rec(&mut q, &name); n += 1; } }
                    2 => { // long suffixes
                        let mut long = vec![]; for k in 0..3 { long.push(60); long.extend(std::iter::repeat(b'a' + k).take(60)); } long.push(0);
                        for _ in 0..3 { rec(&mut q, &long); n += 1; let mut x = vec![1, b'x']; x.extend(&long); rec(&mut q, &x); n += 1; } }
                    _ => { // push names beyond offset 16383 with big unknown records
                        for _ in 0..5 { q.extend_from_slice(&[1, b'z', 0, 0, 99, 0, 1, 0, 0, 0, 1, 0x0f, 0xa0]); q.extend(std::iter::repeat(7u8).take(4000)); n += 1; }
                        for _ in 0..4 { rec(&mut q, &[3, b'f', b'a', b'r', 3, b'o', b'u', b't', 0]); n += 1; } }
                }
                q[6] = (n >> 8) as u8; q[7] = n as u8;
                return vec![prop.into(), "cmp".into(), hex(&q)];
            }
            vec![prop.into(), "cmp".into(), hex(&p)]
        }
        "c07" if r.chance(1, 8) => {
            // partial-label near-miss: the bytes of the source name occur at the END of a longer name but start INSIDE a label -- possible when the
            // length byte of the source's first label is itself a legal host-name character ('-' = 45, '0'..'9' = 48..57)
            let l = *r.pick(&[45u8, 48, 49, 50, 57]) as usize;
            let ch = *r.pick(b"bxQ7");
            let mut src = vec![l as u8]; src.extend(std::iter::repeat(ch).take(l)); src.extend_from_slice(&[3, b'c', b'o', b'm', 0]);
            let pre = 1 + r.below((62 - l) as u64) as usize;          // characters in front, inside the same label
            let mut near = vec![(pre + 1 + l) as u8]; near.extend(std::iter::repeat(b'a').take(pre)); near.extend_from_slice(&src);
            let mut real = vec![3, b'w', b'w', b'w']; real.extend_from_slice(&src);
            let mut q: Vec<u8> = vec![0, 9, 0x80, 0, 0, 1, 0, 2, 0, 0, 0, 0];
            q.extend_from_slice(&near); q.extend_from_slice(&[0, 1, 0, 1]);
            q.extend_from_slice(&[0xc0, 12, 0, 5, 0, 1, 0, 0, 0, 9]); q.push(0); q.push(real.len() as u8); q.extend_from_slice(&real);
            q.extend_from_slice(&near); q.extend_from_slice(&[0, 2, 0, 1, 0, 0, 0, 9]); q.push(0); q.push(real.len() as u8); q.extend_from_slice(&real);
            if wire::parse_ref(&q).is_none() { return vec![]; }
            let t = gen_raw_name(r);
            if t.len() <= 1 { return vec![]; }
            vec![prop.into(), "ren".into(), hex(&q), hex(&t), hex(&src), r.below(2).to_string()]
        }
        "c07" => {
            let m = wire::parse_ref(&p).unwrap();
            // pick a source from the names present (or a random one), at a random label depth
            let mut names: Vec<Vec<u8>> = vec![m.qname.clone()]; for rec in &m.recs { names.push(rec.name.clone()); for n in &rec.rdata_names { names.push(n.clone()); } }
            let mut s = if r.chance(4, 5) { r.pick(&names).clone() } else { gen_raw_name(r) };
            if r.chance(1, 2) { let mut i = 0; let hops = r.below(3); for _ in 0..hops { if s[i] != 0 && s[i + s[i] as usize + 1] != 0 { i += s[i] as usize + 1; } } s = s[i..].to_vec(); }
            if r.chance(1, 3) { for b in s.iter_mut() { if b.is_ascii_alphabetic() && r.chance(1, 2) { *b ^= 0x20; } } }
            let mut t = if r.chance(1, 5) { s.clone() } else { gen_raw_name(r) };
            if r.chance(1, 8) { t = { let mut v = vec![]; for _ in 0..3 { v.push(63); v.extend(std::iter::repeat(b't').take(63)); } v.push(40); v.extend(std::iter::repeat(b'u').take(40)); v.push(0); v } }
            if s.len() <= 1 || t.len() <= 1 { return vec![]; }
            vec![prop.into(), "ren".into(), hex(&p), hex(&t), hex(&s), r.below(2).to_string()]
        }
        "c10" if r.chance(1, 16) => {
            // the 64 KiB limit of the resizing mutators: a pointer-free response just below 65535 bytes whose first answer gets a long owner name
            let slack = r.below(300) as usize;
            let target = 65535 - slack;
            let mut q: Vec<u8> = vec![0x12, 0x34, 0x80, 0, 0, 1, 0, 0, 0, 0, 0, 0, 1, b'q', 0, 0, 1, 0, 1];
            q.extend_from_slice(&[1, b'a', 0, 0, 1, 0, 1, 0, 0, 0, 9, 0, 4, 10, 0, 0, 1]);
            let mut n = 1u16;
            while q.len() < target {
                let room = target - q.len();
                let data = if room >= 11 + 4000 + 11 { 4000 } else { room - 11 };
                q.push(0); q.extend_from_slice(&[0, 99, 0, 1, 0, 0, 0, 5]); q.push((data >> 8) as u8); q.push(data as u8); q.extend(std::iter::repeat(7u8).take(data));
                n += 1;
            }
            q[6] = (n >> 8) as u8; q[7] = n as u8;
            if q.len() != target || wire::parse_ref(&q).is_none() { return vec![]; }
            let mut name = vec![]; for _ in 0..(1 + r.below(4)) { name.push(60); name.extend(std::iter::repeat(b'n').take(60)); } name.push(0);
            vec![prop.into(), "seq".into(), hex(&q), op_to_str(&Op::SetName(1, 0, name))]
        }
        "c10" if r.chance(1, 12) => {
            // the exact boundary of the size cap: a pointer-free packet of 8192 - 17 + d bytes (d = -1, 0, +1, +2), then the 17-byte record "a. 60 IN A 1.2.3.4"
            let d = r.below(4) as usize;
            let target = 8192 - 17 - 1 + d;
            let mut q: Vec<u8> = vec![0x12, 0x34, 0x80, 0, 0, 1, 0, 0, 0, 0, 0, 0, 1, b'q', 0, 0, 1, 0, 1];
            let mut n = 0u16;
            while q.len() < target {
                let room = target - q.len();
                // one opaque record: 1 (root owner) + 10 + data; the last one takes exactly what is left (at least 11 bytes)
                let data = if room >= 11 + 300 + 11 { 300 } else { room - 11 };
                q.push(0); q.extend_from_slice(&[0, 99, 0, 1, 0, 0, 0, 5]); q.push((data >> 8) as u8); q.push(data as u8); q.extend(std::iter::repeat(7u8).take(data));
                n += 1;
            }
            q[6] = (n >> 8) as u8; q[7] = n as u8;
            if q.len() != target || wire::parse_ref(&q).is_none() { return vec![]; }
            vec![prop.into(), "seq".into(), hex(&q), op_to_str(&Op::Insert(1 + r.below(3) as u8, "a. 60 IN A 1.2.3.4".into()))]
        }
        "c10" if r.chance(1, 8) => {
            // the size cap: a response whose wire form is small but whose decompressed form is near or beyond 8192 bytes, then one insertion
            let l = 10 + r.below(50) as usize;
            let mut q: Vec<u8> = vec![0x12, 0x34, 0x80, 0, 0, 1, 0, 0, 0, 0, 0, 0];
            q.push(l as u8); q.extend(std::iter::repeat(b'n').take(l)); q.push(0); q.extend_from_slice(&[0, 1, 0, 1]);
            let per = 14 + l + 2;                       // decompressed size of one record
            let around = (8192usize.saturating_sub(q.len())) / per;
            let m = (around + r.below(12) as usize).saturating_sub(8).max(1).min((8100 - q.len()) / 16);
            for i in 0..m { q.extend_from_slice(&[0xc0, 0x0c, 0, 1, 0, 1, 0, 0, (i >> 8) as u8, i as u8, 0, 4, 10, 0, (i >> 8) as u8, i as u8]); }
            q[6] = (m >> 8) as u8; q[7] = m as u8;
            vec![prop.into(), "seq".into(), hex(&q), op_to_str(&Op::Insert(1 + r.below(3) as u8, text_rr(r)))]
        }
        _ => {
            distinct_ttls(&mut p);
            let m = wire::parse_ref(&p).unwrap();
            let cnt = |s: u8| m.recs.iter().filter(|x| x.section == s).count();
            let nops = if prop == "c11" { 1 } else { 1 + r.below(4) as usize };
            let mut ops = vec![];
            for _ in 0..nops {
                let s = 1 + r.below(3) as u8;
                let k = r.below(cnt(s) as u64 + 1) as usize;
                let op = if prop == "c11" { Op::WalkDelete(s, r.next() & 0xff) } else {
                    match r.below(if prop == "c10" { 8 } else { 14 }) {
                        0 => { let sq = if r.chance(1, 5) { 0 } else { s };
                               // one time in four: a name of exactly the current length (one letter changed), so that nothing moves
                               let cur: Option<Vec<u8>> = if sq == 0 { Some(m.qname.clone()) } else { m.recs.iter().filter(|x| x.section == sq).nth(k).map(|x| x.name.clone()) };
                               let same_len = match cur { Some(mut n) if prop != "c10" && n.len() > 2 && r.chance(1, 4) => { n[1] = if n[1] == b'z' { b'y' } else { b'z' }; Some(n) } _ => None };
                               Op::SetName(sq, k, match same_len { Some(n) => n, None => { let mut n = gen_raw_name(r); if prop == "c10" || r.chance(1, 6) { let i = r.below(n.len() as u64) as usize; n[i] = *r.pick(&[64u8, 0xc0, 200, b'.', b'\\', 7, 127]); } n } }) }
                        1 => Op::Delete(if r.chance(1, 8) { 0 } else { s }, k),
                        2 => if r.chance(1, 4) { Op::InsertQuestion(format!("q{}.example", r.below(9)).into_bytes()) } else { Op::Insert(s, text_rr(r)) },
                        3 => Op::SetTtl(s, k, r.next() as u32),
                        4 => Op::SetIp(s, k, if r.chance(1, 2) { r.bytes(4) } else { r.bytes(16) }),
                        5 => Op::Uncompress(s, k),
                        6 => Op::Recompute,
                        7 => { let mut t = gen_raw_name(r);
                               // one time in three: a target with well-formed labels that the parser's name policy rejects (the call must fail cleanly)
                               if t.len() > 2 && r.chance(1, 3) { let i = 1 + r.below(t[0] as u64) as usize; t[i] = *r.pick(&[b'.', b'\\', 7u8, 127, b'@']); }
                               Op::Rename(t, m.qname.clone(), r.chance(1, 2)) }
                        8 => Op::SetFlags(r.next() as u32 | 0x8000),
                        9 => Op::SetTid(r.next() as u16),
                        10 => Op::SetRcode(r.next() as u8),
                        11 => Op::SetOpcode(r.next() as u8),
                        12 => Op::WalkDelete(s, r.next() & 0xff),
                        _ => Op::SetName(s, k, gen_raw_name(r)),
                    } };
                ops.push(op_to_str(&op));
            }
            let mut v = vec![prop.to_string(), "seq".into(), hex(&p)];
            v.extend(ops);
            v
        }
    }
}
