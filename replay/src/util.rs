pub struct Rng(u64);
impl Rng {
    pub fn new(seed: u64) -> Self { Rng(seed.wrapping_mul(0x9E3779B97F4A7C15) ^ 0xD1B54A32D192ED03) }
    pub fn next(&mut self) -> u64 {
        let mut x = self.0;
        x ^= x << 13; x ^= x >> 7; x ^= x << 17;
        self.0 = x;
        x.wrapping_mul(0x2545F4914F6CDD1D)
    }
    pub fn below(&mut self, n: u64) -> u64 { if n == 0 { 0 } else { self.next() % n } }
    pub fn pick<'a, T>(&mut self, v: &'a [T]) -> &'a T { &v[self.below(v.len() as u64) as usize] }
    pub fn chance(&mut self, num: u64, den: u64) -> bool { self.below(den) < num }
    pub fn bytes(&mut self, n: usize) -> Vec<u8> { (0..n).map(|_| self.next() as u8).collect() }
}
pub fn hex(b: &[u8]) -> String {
    if b.is_empty() { return "-".to_string(); }
    b.iter().map(|x| format!("{:02x}", x)).collect()
}
pub fn unhex(s: &str) -> Result<Vec<u8>, String> {
    if s == "-" { return Ok(vec![]); }
    if s.len() % 2 != 0 { return Err("odd hex".into()); }
    (0..s.len() / 2).map(|i| u8::from_str_radix(&s[2 * i..2 * i + 2], 16).map_err(|e| e.to_string())).collect()
}
pub fn be16(p: &[u8], i: usize) -> u16 { ((p[i] as u16) << 8) | p[i + 1] as u16 }
pub fn be32(p: &[u8], i: usize) -> u32 { ((be16(p, i) as u32) << 16) | be16(p, i + 2) as u32 }
pub fn put16(p: &mut Vec<u8>, v: u16) { p.push((v >> 8) as u8); p.push(v as u8); }
pub fn put32(p: &mut Vec<u8>, v: u32) { put16(p, (v >> 16) as u16); put16(p, v as u16); }
