#![allow(unused)]
use crate::util::*;
pub fn replay(_p: &str, _a: &[&str]) -> Result<(), String> { Err("not implemented".into()) }
pub fn gen(_p: &str, _r: &mut Rng) -> Vec<String> { vec![] }
