//! C01 (totality), C02 (accepts exactly the well-formed packets), C04 (summaries equal the bytes), C18 (termination only)
//! replayed on the real `DNSSector::parse` and the public primitives.
use crate::util::*;
use crate::wire;
use dnssector::*;

/// ops:  parse <hex>  |  name <hex> <offset>  |  cursor <hex> <set_offset> <increment>
pub fn replay(prop: &str, a: &[&str]) -> Result<(), String> {
    if a.is_empty() { return Err("usage: <prop> parse <hex> | name <hex> <off> | cursor <hex> <off> <n>".into()); }
    match a[0] {
        "parse" => {
            let p = unhex(a[1])?;
            let reference = wire::parse_ref(&p);
            dnssector::verif_hook::reset();
            let real = DNSSector::new(p.clone()).map_err(|e| e.to_string())?.parse();
            let steps = dnssector::verif_hook::steps();
            // C18: labels and pointers followed + records and options visited, bounded by a fixed multiple of the length (spec/linear.rs)
            if prop == "c18" && steps > 75 * p.len() as u64 + 271 {
                return Err(format!("validation spent {} steps on a packet of {} bytes (bound 75*len+271 = {})", steps, p.len(), 75 * p.len() + 271));
            }
            match (&real, &reference) {
                (Ok(pp), _) if pp.packet.as_deref() != Some(&p[..]) => return Err("parsed packet does not hold the input bytes".into()),
                (Ok(_), None) if prop != "c01" && prop != "c18" => return Err("accepted a packet that is not well-formed under C02".into()),
                (Err(e), Some(_)) if prop != "c01" && prop != "c18" => return Err(format!("rejected a well-formed packet: {}", e)),
                _ => {}
            }
            if let (Ok(pp), Some(m)) = (real, reference) {
                summaries(pp, &p, &m)?;
            }
            Ok(())
        }
        "name" => {
            let p = unhex(a[1])?;
            let off: usize = a[2].parse().map_err(|_| "bad offset")?;
            let r1 = Compress::check_compressed_name(&p, off).ok();
            let e1 = wire::name_walk(&p, off).map(|x| x.0);
            if r1 != e1 { return Err(format!("check_compressed_name = {:?}, policy says {:?}", r1, e1)); }
            let r2 = DNSSector::check_uncompressed_name(&p, off).ok();
            let e2 = wire::plain_walk(&p, off);
            if r2 != e2 { return Err(format!("check_uncompressed_name = {:?}, policy says {:?}", r2, e2)); }
            Ok(())
        }
        "cursor" => {
            let p = unhex(a[1])?;
            let off: usize = a[2].parse().map_err(|_| "bad offset")?;
            let n: usize = a[3].parse().map_err(|_| "bad n")?;
            let mut ds = DNSSector::new(p.clone()).map_err(|e| e.to_string())?;
            let r = ds.set_offset(off);
            if r.is_ok() != (off < p.len()) { return Err("set_offset accepted/rejected wrongly".into()); }
            let before = ds.offset;
            let r = ds.increment_offset(n);
            let fits = before.checked_add(n).map_or(false, |x| x <= p.len());
            if r.is_ok() != fits { return Err("increment_offset accepted/rejected wrongly".into()); }
            if ds.offset > p.len() { return Err("cursor outside the packet".into()); }
            let _ = ds.rr_rdlen();
            let _ = ds.edns_rr_rdlen();
            if ds.packet != p { return Err("bytes changed".into()); }
            Ok(())
        }
        _ => Err(format!("unknown op {}", a[0])),
    }
}

/// C04: every summary the object reports equals the independent decode
fn summaries(mut pp: ParsedPacket, p: &[u8], m: &wire::Msg) -> Result<(), String> {
    let w = be16(p, 2);
    let (ext_flags, ext_rcode, version, count, payload) = match m.opt {
        Some(o) => (Some(be16(p, o + 6)), Some(p[o + 4]), Some(p[o + 5]), m.options.len() as u16, be16(p, o + 2) as usize),
        None => (None, None, None, 0, 512),
    };
    if pp.tid() != be16(p, 0) { return Err("tid".into()); }
    if pp.flags() != ((ext_flags.unwrap_or(0) as u32) << 16) | (w & 0x87f0) as u32 { return Err("flags".into()); }
    if pp.rcode() != (w & 0xf) as u8 { return Err("rcode".into()); }
    if pp.opcode() != ((w >> 11) & 0xf) as u8 { return Err("opcode".into()); }
    if pp.is_response() != (w & 0x8000 != 0) { return Err("is_response".into()); }
    let dnssec = if w & 0x8000 == 0 { ext_flags.unwrap_or(0) & 0x8000 != 0 } else { w & 0x20 != 0 };
    if pp.dnssec() != dnssec { return Err("dnssec".into()); }
    if pp.ext_flags != ext_flags { return Err("ext_flags".into()); }
    if pp.ext_rcode != ext_rcode { return Err("ext_rcode".into()); }
    if pp.edns_version != version { return Err("edns_version".into()); }
    if pp.edns_count != count { return Err(format!("edns_count {} vs {}", pp.edns_count, count)); }
    if pp.max_payload() != payload { return Err("max_payload".into()); }
    if pp.offset_edns != m.opt.map(|o| o + 10) { return Err("offset_edns".into()); }
    if pp.offset_question != m.starts[0] || pp.offset_answers != m.starts[1] || pp.offset_nameservers != m.starts[2] || pp.offset_additional != m.starts[3] {
        return Err("section offsets".into());
    }
    if pp.qtype_qclass() != Some((m.qtype, m.qclass)) { return Err("qtype_qclass".into()); }
    let q = pp.question().ok_or("question() none")?;
    if q.0 != wire::to_text(&m.qname) || q.1 != m.qtype || q.2 != m.qclass { return Err(format!("question() = {:?}", q)); }
    {
        let q0 = pp.question_raw0().ok_or("question_raw0() none")?;
        if q0.0 != &m.qname[..] || q0.1 != m.qtype || q0.2 != m.qclass { return Err("question_raw0()".into()); }
    }
    {
        let q1 = pp.question_raw().ok_or("question_raw() none")?;
        if q1.0 != &m.qname[..m.qname.len() - 1] || q1.1 != m.qtype || q1.2 != m.qclass { return Err("question_raw()".into()); }
    }
    // after the cache is filled, the other forms must still agree
    let q = pp.question().ok_or("question() none")?;
    if q.0 != wire::to_text(&m.qname) { return Err("question() after caching".into()); }
    if pp.qtype_qclass() != Some((m.qtype, m.qclass)) { return Err("qtype_qclass after caching".into()); }
    if pp.packet.as_deref() != Some(p) { return Err("bytes changed by getters".into()); }
    Ok(())
}

/// packet families built to maximise validation work (C18)
fn gen_c18(r: &mut Rng) -> Vec<u8> {
    let mut p: Vec<u8> = vec![0, 1, 0x80, 0, 0, 1, 0, 0, 0, 0, 0, 0, 1, b'q', 0, 0, 1, 0, 1];
    let mut an = 0u16;
    match r.below(5) {
        4 => {
            // the longest admissible walk: 16 pointers, with 126 one-byte labels right after the first one, hidden in the data of an unknown-type
            // record; then m records whose owner name is a pointer to the top of the chain (a validator that re-walks the name after each pointer
            // spends about fifteen times the work on every one of them)
            let m = 200 + r.below(1500) as usize;
            p.extend_from_slice(&[0, 0, 99, 0, 1, 0, 0, 0, 1]);
            let lenpos = p.len(); p.extend_from_slice(&[0, 0]);
            let start = p.len();
            let e0 = p.len(); p.extend_from_slice(&[1, b'z', 0]);
            // a chain of 14 bare pointers ending in e0, then the 126 labels followed by a pointer to the top of that chain:
            // owner pointer + the pointer after the labels + 14 chain pointers = 16 pointers, the most the parser follows, and the labels come
            // right after the FIRST pointer (so that a walk which restarts after every pointer meets them every time)
            let mut prev = e0;
            for _ in 0..14 { let here = p.len(); p.push(0xc0 | (prev >> 8) as u8); p.push(prev as u8); prev = here; }
            let a = p.len(); for _ in 0..126 { p.push(1); p.push(b'a'); } p.push(0xc0 | (prev >> 8) as u8); p.push(prev as u8);
            let prev = a;
            let l = p.len() - start; p[lenpos] = (l >> 8) as u8; p[lenpos + 1] = l as u8;
            an += 1;
            for _ in 0..m { p.push(0xc0 | (prev >> 8) as u8); p.push(prev as u8); p.extend_from_slice(&[0, 99, 0, 1, 0, 0, 0, 1, 0, 0]); an += 1; }
        }
        3 => {
            // a long run of one-byte labels hidden in the data of an unknown-type record, then m records whose owner name is a pointer to its start
            // (a validator that forgets the 255-byte limit after a pointer walks the whole run once per record)
            let run = 200 + r.below(3000) as usize; let m = 100 + r.below(900) as usize;
            p.extend_from_slice(&[0, 0, 99, 0, 1, 0, 0, 0, 1]);
            let l = 2 * run + 1; p.push((l >> 8) as u8); p.push(l as u8);
            let start = p.len();
            for _ in 0..run { p.push(1); p.push(b'a'); }
            p.push(0);
            an += 1;
            if start < 0x3fff { for _ in 0..m { p.push(0xc0 | (start >> 8) as u8); p.push(start as u8); p.extend_from_slice(&[0, 99, 0, 1, 0, 0, 0, 1, 0, 0]); an += 1; } }
        }
        0 => {
            // a chain of k back-pointers inside the data of an unknown-type record, then m records naming through it at depth d
            let (k, m) = if r.chance(1, 4) { (1500 + r.below(5000) as usize, 1500 + r.below(3000) as usize) } else { (20 + r.below(400) as usize, 50 + r.below(600) as usize) };
            p.extend_from_slice(&[0, 0, 99, 0, 1, 0, 0, 0, 1]);
            let lenpos = p.len(); p.extend_from_slice(&[0, 0]);
            let start = p.len();
            p.extend_from_slice(&[1, b'a', 0]);
            let mut prev = start;
            let mut elems = vec![];
            for _ in 0..k { let here = p.len(); if here >= 0x3fff { break; } p.push(0xc0 | (prev >> 8) as u8); p.push(prev as u8); elems.push(here); prev = here; }
            let l = p.len() - start; p[lenpos] = (l >> 8) as u8; p[lenpos + 1] = l as u8;
            an += 1;
            let d = if r.chance(1, 2) { elems.len() - 1 } else { *r.pick(&[14usize, 15, 16, 17]).min(&(elems.len() - 1)) };
            for _ in 0..m { let t = elems[d]; p.push(0xc0 | (t >> 8) as u8); p.push(t as u8); p.extend_from_slice(&[0, 99, 0, 1, 0, 0, 0, 1, 0, 0]); an += 1; }
        }
        1 => {
            // many records, each with a maximal pointer-free owner name
            let m = 5 + r.below(40) as usize;
            let mut name = vec![]; for _ in 0..3 { name.push(63); name.extend(std::iter::repeat(b'x').take(63)); } name.push(61); name.extend(std::iter::repeat(b'y').take(61)); name.push(0);
            for _ in 0..m { p.extend(&name); p.extend_from_slice(&[0, 1, 0, 1, 0, 0, 0, 1, 0, 4, 1, 2, 3, 4]); an += 1; }
        }
        _ => {
            // one OPT record with a dense list of empty options
            let n = 100 + r.below(3000) as usize;
            p.push(0); p.extend_from_slice(&[0, 41, 4, 0xd0, 0, 0, 0, 0]); let l = 4 * n; p.push((l >> 8) as u8); p.push(l as u8);
            for i in 0..n { p.extend_from_slice(&[0, (i & 0xff) as u8, 0, 0]); }
            p[11] = 1;
        }
    }
    p[6] = (an >> 8) as u8; p[7] = an as u8;
    p
}

pub fn gen(prop: &str, r: &mut Rng) -> Vec<String> {
    if prop == "c18" && r.chance(2, 3) { return vec![prop.into(), "parse".into(), hex(&gen_c18(r))]; }
    let k = r.below(20);
    if k == 0 && prop != "c04" {
        let p = wire::gen_packet(r);
        let off = if r.chance(1, 4) { r.next() as usize } else { r.below(p.len() as u64 + 3) as usize };
        return vec![prop.into(), "name".into(), hex(&p), off.to_string()];
    }
    if k == 1 && prop == "c01" {
        let p = wire::gen_packet(r);
        let off = if r.chance(1, 4) { usize::MAX - r.below(3) as usize } else { r.below(p.len() as u64 + 3) as usize };
        let n = if r.chance(1, 4) { usize::MAX - r.below(3) as usize } else { r.below(p.len() as u64 + 3) as usize };
        return vec![prop.into(), "cursor".into(), hex(&p), off.to_string(), n.to_string()];
    }
    let p = if k == 2 { wire::gen_boundary(r) } else if prop == "c04" { let c = r.chance(3, 4); wire::gen_valid(r, c) } else { wire::gen_packet(r) };
    vec![prop.into(), "parse".into(), hex(&p)]
}
