//! C12: header setters touch only their own bits; getters return what was set.  Oracle = the property text.
use crate::util::*;
use dnssector::*;

fn mk(bytes: Vec<u8>, ext_flags: Option<u16>) -> ParsedPacket {
    ParsedPacket {
        packet: Some(bytes), offset_question: None, offset_answers: None, offset_nameservers: None, offset_additional: None,
        offset_edns: None, edns_count: 0, ext_rcode: None, edns_version: None, ext_flags, maybe_compressed: false,
        max_payload: 512, cached: None,
    }
}

/// args: <setter> <hex header (>=12 bytes)> <ext_flags or -> <argument>
pub fn replay(a: &[&str]) -> Result<(), String> {
    if a.len() < 4 { return Err("usage: c12 <setter> <hex> <extflags|-> <arg>".into()); }
    let old = unhex(a[1])?;
    if old.len() < 12 { return Err("header too short".into()); }
    let ext = if a[2] == "-" { None } else { Some(a[2].parse::<u16>().map_err(|e| e.to_string())?) };
    let arg: u64 = a[3].parse().map_err(|_| "bad arg")?;
    let mut pp = mk(old.clone(), ext);
    let w0 = be16(&old, 2);
    let expect_w: u16;
    match a[0] {
        "set_flags" => { pp.set_flags(arg as u32); expect_w = (w0 & 0x780f) | ((arg as u16) & 0x87f0); }
        "set_rcode" => { pp.set_rcode(arg as u8); expect_w = (w0 & !0x000f) | ((arg as u16) & 0x0f); }
        "set_opcode" => { pp.set_opcode(arg as u8); expect_w = (w0 & !0x7800) | (((arg as u16) & 0x0f) << 11); }
        "set_response" => { pp.set_response(arg != 0); expect_w = (w0 & 0x7fff) | if arg != 0 { 0x8000 } else { 0 }; }
        "set_tid" => { pp.set_tid(arg as u16); expect_w = w0; }
        "ds_set_response" => {
            let mut v = old.clone();
            DNSSector::set_response(&mut v, arg != 0);
            pp = mk(v, ext);
            expect_w = (w0 & 0x7fff) | if arg != 0 { 0x8000 } else { 0 };
        }
        _ => return Err(format!("unknown setter {}", a[0])),
    }
    let new = pp.packet.clone().unwrap();
    let mut expect = old.clone();
    expect[2] = (expect_w >> 8) as u8; expect[3] = expect_w as u8;
    if a[0] == "set_tid" { expect[0] = (arg >> 8) as u8; expect[1] = arg as u8; }
    if new != expect { return Err(format!("{}({}) on {} gave {} expected {}", a[0], arg, hex(&old), hex(&new), hex(&expect))); }
    if pp.ext_flags != ext { return Err("ext_flags changed".into()); }
    // getters
    let w = be16(&new, 2);
    let f = pp.flags();
    let ef = ((ext.unwrap_or(0) as u32) << 16) | (w & 0x87f0) as u32;
    if f != ef { return Err(format!("flags() = {:#x}, bytes say {:#x}", f, ef)); }
    if pp.rcode() != (w & 0x0f) as u8 { return Err("rcode() wrong".into()); }
    if pp.opcode() != ((w >> 11) & 0x0f) as u8 { return Err("opcode() wrong".into()); }
    if pp.is_response() != (w & 0x8000 != 0) { return Err("is_response() wrong".into()); }
    if DNSSector::is_response(&new) != (w & 0x8000 != 0) { return Err("DNSSector::is_response() wrong".into()); }
    if pp.tid() != be16(&new, 0) { return Err("tid() wrong".into()); }
    let dnssec = if w & 0x8000 == 0 { ext.unwrap_or(0) & 0x8000 != 0 } else { w & 0x20 != 0 };
    if pp.dnssec() != dnssec { return Err("dnssec() wrong".into()); }
    Ok(())
}

pub fn gen(r: &mut Rng) -> Vec<String> {
    let setter = *r.pick(&["set_flags", "set_rcode", "set_opcode", "set_response", "set_tid", "ds_set_response"]);
    let mut hdr = r.bytes(12);
    if r.chance(1, 4) { hdr[2] = *r.pick(&[0u8, 0xff, 0x78, 0x87, 0x80]); hdr[3] = *r.pick(&[0u8, 0xff, 0x0f, 0xf0]); }
    let ext = if r.chance(1, 2) { "-".to_string() } else { (r.next() as u16).to_string() };
    let arg = match setter {
        "set_flags" => (r.next() as u32) as u64,
        "set_tid" => (r.next() as u16) as u64,
        "set_response" | "ds_set_response" => r.below(2),
        _ => (r.next() as u8) as u64,
    };
    vec!["c12".into(), setter.into(), hex(&hdr), ext, arg.to_string()]
}
