//! Replays a recorded operation against the REAL dnssector crate (path dependency on /repo, rebuilt from the
//! working tree) and judges it with small reference decoders written from the property statements.
//! Usage:  dnssector-replay <property> <op> <args...>      exit 0 = property held, 1 = violated (prints FAIL ...)
//!         dnssector-replay search <property> <seed> <n>   witness search: prints `WITNESS <replay args>` for the first failure
use std::panic::{catch_unwind, AssertUnwindSafe};

mod util;
mod c12;
mod wire;
mod c01;
mod c03;
mod mutate;
mod names;

fn main() {
    let args: Vec<String> = std::env::args().skip(1).collect();
    if args.is_empty() {
        eprintln!("usage: dnssector-replay <property> <op> <args..> | search <property> <seed> <n>");
        std::process::exit(2);
    }
    std::panic::set_hook(Box::new(|_| {}));
    if args[0] == "stats" {
        let seed: u64 = args.get(1).and_then(|s| s.parse().ok()).unwrap_or(1);
        let n: u64 = args.get(2).and_then(|s| s.parse().ok()).unwrap_or(1000);
        let mut rng = util::Rng::new(seed);
        let (mut v, mut vc, mut pk, mut withopt, mut ptrs, mut recs) = (0, 0, 0, 0, 0, 0);
        for _ in 0..n {
            let p = wire::gen_valid(&mut rng, true);
            if let Some(m) = wire::parse_ref(&p) { vc += 1; if m.opt.is_some() { withopt += 1; } recs += m.recs.len();
                if p[12..].windows(1).any(|w| w[0] & 0xc0 == 0xc0) { ptrs += 1; } }
            let p = wire::gen_valid(&mut rng, false);
            if wire::parse_ref(&p).is_some() { v += 1; }
            let p = wire::gen_packet(&mut rng);
            if wire::parse_ref(&p).is_some() { pk += 1; }
        }
        println!("of {}: gen_valid(compress) accepted {} (with OPT {}, with 0xc0 bytes {}, records {}), gen_valid(plain) accepted {}, gen_packet accepted {}", n, vc, withopt, ptrs, recs, v, pk);
        return;
    }
    let code = if args[0] == "search" {
        let prop = args.get(1).map(|s| s.as_str()).unwrap_or("");
        let seed: u64 = args.get(2).and_then(|s| s.parse().ok()).unwrap_or(1);
        let n: u64 = args.get(3).and_then(|s| s.parse().ok()).unwrap_or(1000);
        let filter = args.get(4).map(|s| s.as_str()).unwrap_or("");
        search(prop, seed, n, filter)
    } else {
        match run(&args) {
            Ok(()) => {
                println!("OK");
                0
            }
            Err(e) => {
                println!("FAIL {}", e);
                1
            }
        }
    };
    std::process::exit(code);
}

pub fn run(args: &[String]) -> Result<(), String> {
    let a: Vec<&str> = args.iter().map(|s| s.as_str()).collect();
    let r = catch_unwind(AssertUnwindSafe(|| match a[0] {
        "c12" => c12::replay(&a[1..]),
        "c01" | "c02" | "c18" | "c04" => c01::replay(a[0], &a[1..]),
        "c03" => c03::replay(&a[1..]),
        "c05" | "c06" | "c07" | "c08" | "c09" | "c10" | "c11" => mutate::replay(a[0], &a[1..]),
        "c13" | "c14" => names::replay(a[0], &a[1..]),
        _ => Err(format!("unknown property {}", a[0])),
    }));
    match r {
        Ok(x) => x,
        Err(p) => {
            let msg = if let Some(s) = p.downcast_ref::<&str>() {
                s.to_string()
            } else if let Some(s) = p.downcast_ref::<String>() {
                s.clone()
            } else {
                "panic".to_string()
            };
            Err(format!("panic: {}", msg))
        }
    }
}

fn search(prop: &str, seed: u64, n: u64, filter: &str) -> i32 {
    let mut rng = util::Rng::new(seed);
    let mut tried = 0u64;
    let mut distinct = std::collections::HashSet::new();
    // failures listed as open known findings (substrings of the FAIL message, ';'-separated) are counted, not reported
    let known: Vec<String> = std::env::var("REPLAY_KNOWN").unwrap_or_default().split(';').map(|s| s.to_string()).collect();
    let mut known_hits = 0u64;
    for _ in 0..n {
        let cand: Vec<String> = match prop {
            "c12" => c12::gen(&mut rng),
            "c01" | "c02" | "c18" | "c04" => c01::gen(prop, &mut rng),
            "c03" => c03::gen(&mut rng),
            "c05" | "c06" | "c07" | "c08" | "c09" | "c10" | "c11" => mutate::gen(prop, &mut rng, filter),
            "c13" | "c14" => names::gen(prop, &mut rng),
            _ => {
                eprintln!("unknown property {}", prop);
                return 2;
            }
        };
        if cand.is_empty() {
            continue;
        }
        tried += 1;
        distinct.insert(cand.join(" "));
        if let Err(e) = run(&cand) {
            if known.iter().any(|k| !k.is_empty() && e.contains(k.as_str())) { known_hits += 1; continue; }
            println!("WITNESS {}", cand.join(" "));
            println!("FAIL {}", e);
            println!("TRIED {} DISTINCT {}", tried, distinct.len());
            return 1;
        }
    }
    println!("TRIED {} DISTINCT {} KNOWN {}", tried, distinct.len(), known_hits);
    0
}
