//! C14 (host names text <-> wire) and C13 (record text synthesis) replayed on the real crate.
use crate::util::*;
use crate::wire;
use dnssector::*;

/// reference text -> wire conversion, written from the property text of C14 (and the crate's documented limits:
/// labels of at most 62 bytes, no byte above 128, text and wire of at most 253 bytes)
pub fn ref_name_to_wire(name: &[u8], zone: Option<&[u8]>) -> Option<Vec<u8>> {
    if name.len() > 253 { return None; }
    if name == b"." { return Some(vec![0]); }
    let mut out = vec![];
    let mut i = 0;
    let mut ended_with_dot = false;
    while i < name.len() {
        let e = name[i..].iter().position(|&c| c == b'.').map(|k| i + k).unwrap_or(name.len());
        if e == i { return None; }                                  // empty label (leading dot, two dots)
        if e - i > 62 { return None; }
        if name[i..e].iter().any(|&c| c > 128) { return None; }
        out.push((e - i) as u8);
        out.extend_from_slice(&name[i..e]);
        ended_with_dot = e < name.len();
        i = e + 1;
    }
    if name.is_empty() || ended_with_dot { out.push(0); } else {
        match zone { None => out.push(0), Some(z) => out.extend_from_slice(z) }
    }
    if out.len() > 253 { return None; }
    Some(out)
}

fn strip_dot(s: &[u8]) -> &[u8] { if s.last() == Some(&b'.') { &s[..s.len() - 1] } else { s } }

/// ops:
///   c14 name <hex text> <hex zone | ->          conversion equals the reference; reads back as the lowercased input
///   c13 build <type> <hex owner> <hex field1> [<hex field2>] [<u32> ...]   typed builders equal the RFC 1035 wire form
///   c13 text <hex record text>                  from_string never panics; an Ok result is the reference wire form (when the reference knows it)
pub fn replay(prop: &str, a: &[&str]) -> Result<(), String> {
    match (prop, a.get(0).copied().unwrap_or("")) {
        ("c14", "name") => {
            let name = unhex(a[1])?;
            let zone = if a[2] == "-" { None } else { Some(unhex(a[2])?) };
            let real = r#gen::raw_name_from_str(&name, zone.as_deref()).ok();
            let reference = ref_name_to_wire(&name, zone.as_deref());
            if real != reference { return Err(format!("raw_name_from_str = {:?}, reference = {:?}", real.map(|v| hex(&v)), reference.map(|v| hex(&v)))); }
            if let (Some(w), None) = (&reference, &zone) {
                // well-formed pointer-free wire name
                if wire::plain_walk(w, 0) != Some(w.len()) { return Err("result is not a well-formed wire name".into()); }
                // reads back as the lowercased input without its trailing dot (only meaningful for names the parser accepts)
                if !name.iter().any(|&c| wire::bad_char(c) && c != b'.') {
                    let mut pp = match r#gen::query(&name, Type::A, Class::IN) { Ok(pp) => pp, Err(e) => return Err(format!("query() failed: {}", e)) };
                    let bytes = pp.packet.clone().unwrap();
                    if DNSSector::new(bytes).unwrap().parse().is_err() { return Err("synthesised query is not accepted by the parser".into()); }
                    let mut it = pp.into_iter_question();
                    let item = it.take().ok_or("no question")?;
                    let got = item.name();
                    let want: Vec<u8> = if name == b"." { vec![] } else { strip_dot(&name).to_ascii_lowercase() };
                    if got != want { return Err(format!("reads back as {:?}", String::from_utf8_lossy(&got))); }
                }
            }
            Ok(())
        }
        ("c13", "build") => build(&a[1..]),
        ("c13", "text") => {
            let s = unhex(a[1])?;
            let s = match String::from_utf8(s) { Ok(s) => s, Err(_) => return Ok(()) };
            let real = r#gen::RR::from_string(&s);
            let reference = ref_text(&s);
            match (real, reference) {
                (Ok(rr), Some(Some(w))) => { if rr.packet != w { return Err(format!("from_string = {}, reference = {}", hex(&rr.packet), hex(&w))); } check_insert(rr)?; }
                (Err(e), Some(Some(_))) => return Err(format!("valid text rejected: {}", e)),
                (Ok(rr), Some(None)) => return Err(format!("text outside the grammar accepted: {}", hex(&rr.packet))),
                (Ok(rr), None) => { check_insert(rr)?; }        // reference has no opinion: anything returned must still be a well-formed record
                _ => {}
            }
            Ok(())
        }
        _ => Err("usage: c14 name <hex> <hexzone|-> | c13 build .. | c13 text <hex>".into()),
    }
}

/// anything synthesis returns is a well-formed record: inserting it into a valid response leaves an accepted packet
fn check_insert(rr: r#gen::RR) -> Result<(), String> {
    for sec in [Section::Answer, Section::NameServers, Section::Additional] {
        let base: Vec<u8> = vec![0, 1, 0x80, 0, 0, 1, 0, 0, 0, 0, 0, 0, 1, b'q', 0, 0, 1, 0, 1];
        let mut pp = DNSSector::new(base).unwrap().parse().map_err(|e| e.to_string())?;
        pp.insert_rr(sec, rr.clone()).map_err(|e| format!("insert_rr failed: {}", e))?;
        let bytes = pp.packet.clone().unwrap();
        if let Err(e) = DNSSector::new(bytes.clone()).unwrap().parse() { return Err(format!("packet after insertion is rejected: {} ({})", e, hex(&bytes))); }
    }
    Ok(())
}

fn rr_wire(owner: &[u8], rtype: u16, ttl: u32, rdata: &[u8]) -> Option<Vec<u8>> {
    let mut w = ref_name_to_wire(owner, None)?;
    if rdata.len() > 0xffff { return None; }
    put16(&mut w, rtype); put16(&mut w, 1); put32(&mut w, ttl); put16(&mut w, rdata.len() as u16);
    w.extend_from_slice(rdata);
    Some(w)
}

fn build(a: &[&str]) -> Result<(), String> {
    let owner = unhex(a[1])?;
    let ttl = 300u32;
    let hdr = |t: Type| r#gen::RRHeader { name: owner.clone(), ttl, class: Class::IN, rr_type: t };
    let (real, reference): (Result<r#gen::RR, _>, Option<Vec<u8>>) = match a[0] {
        "ns" | "cname" | "ptr" => {
            let h = unhex(a[2])?;
            let t = match a[0] { "ns" => Type::NS, "cname" => Type::CNAME, _ => Type::PTR };
            let real = match a[0] { "ns" => r#gen::NS::build(hdr(t), h.clone()), "cname" => r#gen::CNAME::build(hdr(t), h.clone()), _ => r#gen::PTR::build(hdr(t), h.clone()) };
            (real, ref_name_to_wire(&h, None).and_then(|rd| rr_wire(&owner, t.into(), ttl, &rd)))
        }
        "mx" => {
            let h = unhex(a[2])?; let pref: u16 = a[3].parse().map_err(|_| "pref")?;
            let rd = ref_name_to_wire(&h, None).map(|n| { let mut v = vec![(pref >> 8) as u8, pref as u8]; v.extend(n); v });
            (r#gen::MX::build(hdr(Type::MX), pref, h.clone()), rd.and_then(|rd| rr_wire(&owner, 15, ttl, &rd)))
        }
        "soa" => {
            let n1 = unhex(a[2])?; let n2 = unhex(a[3])?;
            let v: Vec<u32> = a[4..9].iter().map(|x| x.parse().unwrap_or(0)).collect();
            let rd = match (ref_name_to_wire(&n1, None), ref_name_to_wire(&n2, None)) {
                (Some(mut x), Some(y)) => { x.extend(y); for k in 0..5 { put32(&mut x, v[k]); } Some(x) }
                _ => None,
            };
            (r#gen::SOA::build(hdr(Type::SOA), n1, n2, v[0], v[1], v[2], v[3], v[4]), rd.and_then(|rd| rr_wire(&owner, 6, ttl, &rd)))
        }
        "txt" => {
            let t = unhex(a[2])?;
            let rd = if t.len() > (4096 - 12 - 1 - 10) / 256 * 255 { None } else {
                let mut v = vec![]; for c in t.chunks(255) { v.push(c.len() as u8); v.extend_from_slice(c); } Some(v) };
            (r#gen::TXT::build(hdr(Type::TXT), t), rd.and_then(|rd| rr_wire(&owner, 16, ttl, &rd)))
        }
        "ds" => {
            let d = unhex(a[2])?; let kt: u16 = a[3].parse().map_err(|_| "keytag")?; let alg: u8 = a[4].parse().map_err(|_| "alg")?; let dt: u8 = a[5].parse().map_err(|_| "dt")?;
            let mut rd = vec![(kt >> 8) as u8, kt as u8, alg, dt]; rd.extend_from_slice(&d);
            (r#gen::DS::build(hdr(Type::DS), kt, alg, dt, d), rr_wire(&owner, 43, ttl, &rd))
        }
        "a" => {
            let ip = unhex(a[2])?; if ip.len() != 4 { return Ok(()); }
            (r#gen::A::build(hdr(Type::A), std::net::Ipv4Addr::new(ip[0], ip[1], ip[2], ip[3])), rr_wire(&owner, 1, ttl, &ip))
        }
        "aaaa" => {
            let ip = unhex(a[2])?; if ip.len() != 16 { return Ok(()); }
            let mut b = [0u8; 16]; b.copy_from_slice(&ip);
            (r#gen::AAAA::build(hdr(Type::AAAA), std::net::Ipv6Addr::from(b)), rr_wire(&owner, 28, ttl, &ip))
        }
        _ => return Err("unknown builder".into()),
    };
    match (real, reference) {
        (Ok(rr), Some(w)) => { if rr.packet != w { return Err(format!("{} builder = {}, RFC 1035 form = {}", a[0], hex(&rr.packet), hex(&w))); }
                               if rr.rdata() != &w[w.len() - rr.rdata().len()..] { return Err("rdata() wrong".into()); } Ok(()) }
        (Err(e), Some(_)) => Err(format!("{} builder rejected valid fields: {}", a[0], e)),
        (Ok(rr), None) => Err(format!("{} builder accepted invalid fields: {}", a[0], hex(&rr.packet))),
        (Err(_), None) => Ok(()),
    }
}

// ---- reference for record text.  Some(Some(w)): grammatical, wire w.  Some(None): certainly outside the grammar.  None: no opinion.
fn ref_text(s: &str) -> Option<Option<Vec<u8>>> {
    let toks: Vec<&str> = s.split(|c| c == ' ' || c == '\t').filter(|t| !t.is_empty()).collect();
    if s.bytes().any(|c| c == b'\n' || c == b'\r' || c == 0x0b || c == 0x0c) {
        return if toks.len() >= 5 && toks[3].bytes().all(|c| c.is_ascii_alphabetic()) && !toks[3].eq_ignore_ascii_case("SOA") { Some(None) } else { None };
    }
    // a type keyword glued to its data (`TXT"abc"`, `AAAA::1`): the blank after the keyword is mandatory
    if toks.len() >= 4 {
        for k in ["AAAA", "CNAME", "A", "NS", "PTR", "TXT", "MX", "SOA", "DS"] {
            let t = toks[3];
            if t.len() > k.len() && t.is_char_boundary(k.len()) && t[..k.len()].eq_ignore_ascii_case(k) && !t.as_bytes()[k.len()].is_ascii_alphanumeric() && !toks[..3].iter().any(|x| x.contains('"') || x.contains('\\')) {
                return Some(None);
            }
        }
    }
    // TXT: `"` then one or more of { \DDD with DDD <= 255 | a byte 32..=127 other than `\` and `"` } then `"`, optional blanks, end of text
    if toks.len() >= 5 && toks[3].eq_ignore_ascii_case("TXT") && !toks[..4].iter().any(|t| t.contains('"') || t.contains('\\'))
        && !s.starts_with(' ') && !s.starts_with('\t') && !s.bytes().any(|c| c == b'\n' || c == b'\r' || c == 0) {
        return ref_txt(s, &toks);
    }
    if s.bytes().any(|c| c == b'\n' || c == b'\r' || c == b'"' || c == b'\\' || c >= 128 || c < 9 || (c > 9 && c < 32)) { return None; }
    if toks.len() < 4 { return Some(None); }
    let owner = toks[0];
    // hostname grammar of the text parser: labels start with a letter, digit or '_', continue with letters, digits or '-'; not all-numeric
    let name_ok = |n: &str| -> bool {
        if n.is_empty() || n.bytes().all(|c| c.is_ascii_digit() || c == b'.') { return false; }
        if n == "." { return true; }
        n.trim_end_matches('.').split('.').all(|l| !l.is_empty() && l.len() <= 62 && {
            let b = l.as_bytes();
            (b[0].is_ascii_alphanumeric() || b[0] == b'_') && b[1..].iter().all(|&c| c.is_ascii_alphanumeric() || c == b'-') })
            && !n.ends_with("..") && !n.starts_with('.')
    };
    // the host-name field as the text grammar reads it: letters and digits anywhere, `_` only at the start of a label, `-` only after the start,
    // labels of 1..=62 characters separated by single dots, an optional trailing dot.  Some(true): accepted by the grammar; Some(false): an error;
    // None: no opinion (a leading dot, or digits and dots only)
    let host_verdict = |n: &str| -> Option<bool> {
        if n.is_empty() { return None; }
        if n == "." { return Some(true); }
        if n.starts_with('.') || n.bytes().all(|c| c.is_ascii_digit() || c == b'.') { return None; }
        let mut ll = 0usize;
        for c in n.bytes() {
            match c {
                b'.' => { if ll == 0 { return Some(false); } ll = 0; }
                b'_' => { if ll != 0 { return Some(false); } ll += 1; }
                b'-' => { if ll == 0 { return Some(false); } ll += 1; }
                c if c.is_ascii_alphanumeric() => { ll += 1; }
                _ => return Some(false),
            }
            if ll > 62 { return Some(false); }
        }
        Some(true)
    };
    // a label that starts with a hyphen is an error wherever it stands (the reference has no opinion on other shapes it does not like)
    let hyphen_label = |n: &str| -> bool { n.split('.').any(|l| l.starts_with('-')) && n.bytes().all(|c| c.is_ascii_alphanumeric() || c == b'-' || c == b'_' || c == b'.') };
    if hyphen_label(owner) { return Some(None); }
    match host_verdict(owner) { Some(false) => return Some(None), None => return None, Some(true) => {} }
    if !name_ok(owner) { return None; }
    // the TTL is a run of decimal digits that fits 32 bits: anything else (a sign, a letter, a value above 2^32-1) is an error
    if !toks[1].bytes().all(|c| c.is_ascii_digit()) { return Some(None); }
    let ttl: u32 = match toks[1].parse::<u64>() { Ok(v) if v <= u32::MAX as u64 => v as u32, _ => return Some(None) };
    // a class other than IN (any other purely alphabetic word) is an error
    if !toks[2].eq_ignore_ascii_case("IN") { return if toks[2].bytes().all(|c| c.is_ascii_alphabetic()) { Some(None) } else { None }; }
    let t = toks[3].to_ascii_uppercase();
    let rest = &toks[4..];
    let num = |x: &str, max: u64| -> Option<u64> { if !x.is_empty() && x.bytes().all(|c| c.is_ascii_digit()) && x.len() < 15 { x.parse::<u64>().ok().filter(|v| *v <= max) } else { None } };
    let wire = |rtype: u16, rd: Option<Vec<u8>>| -> Option<Option<Vec<u8>>> {
        match rd { Some(rd) => { let mut w = ref_name_to_wire(owner.as_bytes(), None)?; put16(&mut w, rtype); put16(&mut w, 1); put32(&mut w, ttl); put16(&mut w, rd.len() as u16); w.extend(rd); Some(Some(w)) }, None => None }
    };
    match t.as_str() {
        "A" => { if rest.len() != 1 { return Some(None); }
                 let p: Vec<&str> = rest[0].split('.').collect();
                 // more or fewer than four components, all of them digit runs or empty (`1.2.3.4.`, `1.2.3.4.5`, `1.2.3`): an error
                 if p.len() != 4 { return if p.iter().all(|x| x.bytes().all(|c| c.is_ascii_digit())) { Some(None) } else { None }; }
                 let mut ip = vec![]; for x in p { match num(x, 255) { Some(v) => ip.push(v as u8),      // a component is a decimal number: leading zeros do not change it
                     // a component that is a plain number above 255 is an error (other odd shapes: no opinion)
                     None if !x.is_empty() && x.len() < 10 && x.bytes().all(|c| c.is_ascii_digit()) && !x.starts_with('0') => return Some(None),
                     _ => return None } }
                 wire(1, Some(ip)) }
        "NS" | "CNAME" | "PTR" => { if rest.len() != 1 { return Some(None); } if hyphen_label(rest[0]) { return Some(None); } match host_verdict(rest[0]) { Some(false) => return Some(None), None => return None, Some(true) => {} } if !name_ok(rest[0]) { return None; }
                 let rt = match t.as_str() { "NS" => 2, "CNAME" => 5, _ => 12 };
                 wire(rt, ref_name_to_wire(rest[0].as_bytes(), None)) }
        "MX" => { if rest.len() != 2 { return Some(None); } if hyphen_label(rest[1]) { return Some(None); } match host_verdict(rest[1]) { Some(false) => return Some(None), None => return None, Some(true) => {} } if !name_ok(rest[1]) { return None; }
                 let pref = match num(rest[0], 65535) { Some(v) => v as u16, None => return if rest[0].bytes().all(|c| c.is_ascii_alphanumeric()) && rest[0].len() < 15 { Some(None) } else { None } };
                 wire(15, ref_name_to_wire(rest[1].as_bytes(), None).map(|n| { let mut v = vec![(pref >> 8) as u8, pref as u8]; v.extend(n); v })) }
        "SOA" => {
                 // ns contact ( serial refresh retry expire minimum )
                 let joined = rest.join(" ");
                 // both parentheses of the number group are mandatory
                 let (names, nums) = match joined.split_once('(') { Some(x) => x, None => return Some(None) };
                 let nums = match nums.trim_end().strip_suffix(')') { Some(x) => x, None => return Some(None) };
                 let nm: Vec<&str> = names.split(' ').filter(|t| !t.is_empty()).collect();
                 let nv: Vec<&str> = nums.split(' ').filter(|t| !t.is_empty()).collect();
                 if nm.len() != 2 || nv.len() != 5 { return None; }
                 if hyphen_label(nm[0]) || hyphen_label(nm[1]) { return Some(None); }
                 for x in [nm[0], nm[1]] { match host_verdict(x) { Some(false) => return Some(None), None => return None, Some(true) => {} } }
                 if !name_ok(nm[0]) || !name_ok(nm[1]) { return None; }
                 let mut rd = match (ref_name_to_wire(nm[0].as_bytes(), None), ref_name_to_wire(nm[1].as_bytes(), None)) { (Some(mut x), Some(y)) => { x.extend(y); x }, _ => return None };
                 for x in &nv { match num(x, u32::MAX as u64) { Some(v) => put32(&mut rd, v as u32), None => return if x.bytes().all(|c| c.is_ascii_alphanumeric()) { Some(None) } else { None } } }
                 wire(6, Some(rd)) }
        "DS" => { if rest.len() != 4 { return None; }
                 // a numeric field that is a plain number above its range is an error (other shapes: no opinion)
                 for (x, max) in [(rest[0], 65535u64), (rest[1], 255), (rest[2], 255)] { if num(x, max).is_none() && !x.is_empty() && x.len() < 15 && x.bytes().all(|c| c.is_ascii_digit()) { return Some(None); } }
                 // a word where a number belongs (an algorithm mnemonic, a unit suffix): an error
                 for x in [rest[0], rest[1], rest[2]] { if !x.bytes().all(|c| c.is_ascii_digit()) && x.bytes().all(|c| c.is_ascii_alphanumeric()) { return Some(None); } }
                 let kt = num(rest[0], 65535)?; let alg = num(rest[1], 255)?; let dt = num(rest[2], 255)?;
                 let h = rest[3];
                 // a digest with a character that is not a hex digit is an error (when it is made of letters and digits only; other shapes: no opinion)
                 if !h.bytes().all(|c| c.is_ascii_hexdigit()) { return if h.bytes().all(|c| c.is_ascii_alphanumeric()) { Some(None) } else { None }; }
                 if h.len() % 2 != 0 { return Some(None); }
                 let mut rd = vec![(kt >> 8) as u8, kt as u8, alg as u8, dt as u8]; rd.extend(unhex(&h.to_ascii_lowercase()).ok()?);
                 wire(43, Some(rd)) }
        // AAAA: where the standard library reads the field as an IPv6 address, the record must carry exactly those sixteen bytes (other shapes: no opinion)
        "AAAA" => { if rest.len() != 1 { return None; }
                    // (the library reads hex digits and colons only: the embedded-IPv4 notation `::ffff:1.2.3.4` is outside its grammar -- no opinion there)
                    if !rest[0].bytes().all(|c| c.is_ascii_hexdigit() || c == b':') { return None; }
                    // hex digits and colons that the standard library does not read as an address: an error
                    match rest[0].parse::<std::net::Ipv6Addr>() { Ok(a) => wire(28, Some(a.octets().to_vec())), Err(_) => Some(None) } }
        // a type keyword outside the nine supported ones is an error
        _ => if t.bytes().all(|c| c.is_ascii_alphabetic()) { Some(None) } else { None },
    }
}

fn ref_txt(s: &str, toks: &[&str]) -> Option<Option<Vec<u8>>> {
    // the prefix `owner ttl IN TXT` is judged by the general reference on a stand-in record with the same prefix
    let stand_in = format!("{} {} {} A 1.2.3.4", toks[0], toks[1], toks[2]);
    let head = match ref_text(&stand_in) { Some(Some(w)) => w, Some(None) => return Some(None), None => return None };
    // position right after the 4th token
    let b = s.as_bytes();
    let mut i = 0; let mut seen = 0;
    while i < b.len() && seen < 4 { while i < b.len() && (b[i] == b' ' || b[i] == b'\t') { i += 1; } while i < b.len() && b[i] != b' ' && b[i] != b'\t' { i += 1; } seen += 1; }
    while i < b.len() && (b[i] == b' ' || b[i] == b'\t') { i += 1; }
    if i >= b.len() || b[i] != b'"' { return Some(None); }
    i += 1;
    let mut txt: Vec<u8> = vec![];
    let mut n = 0;
    loop {
        if i >= b.len() { return Some(None); }
        let c = b[i];
        if c == b'"' { i += 1; break; }
        if c == b'\\' {
            if i + 3 >= b.len() || !b[i + 1].is_ascii_digit() || !b[i + 2].is_ascii_digit() || !b[i + 3].is_ascii_digit() { return Some(None); }
            let v = (b[i + 1] - 48) as u32 * 100 + (b[i + 2] - 48) as u32 * 10 + (b[i + 3] - 48) as u32;
            if v > 255 { return Some(None); }
            txt.push(v as u8); i += 4;
        } else if c > 31 && c < 128 { txt.push(c); i += 1; } else { return Some(None); }
        n += 1;
    }
    if n == 0 { return Some(None); }
    while i < b.len() && (b[i] == b' ' || b[i] == b'\t') { i += 1; }
    if i != b.len() { return Some(None); }
    if txt.len() > (4096 - 12 - 1 - 10) / 256 * 255 { return Some(None); }
    let mut rd = vec![]; for ch in txt.chunks(255) { rd.push(ch.len() as u8); rd.extend_from_slice(ch); }
    // head = owner | type A | class | ttl | rdlen 4 | 1.2.3.4  ->  replace type, rdlen and data
    let ne = head.len() - 14;
    let mut w = head[..ne].to_vec(); put16(&mut w, 16); w.extend_from_slice(&head[ne + 2..ne + 8]); put16(&mut w, rd.len() as u16); w.extend(rd);
    Some(Some(w))
}

const LAB: &[u8] = b"abcXYZ019-_";

fn gen_text_name(r: &mut Rng, hostile: bool) -> Vec<u8> {
    let mut out = vec![];
    let nl = match r.below(12) { 0 => 0, 1 => 5 + r.below(3) as usize, _ => 1 + r.below(3) as usize };
    for k in 0..nl {
        if k > 0 { out.push(b'.'); }
        let n = match r.below(14) { 0 => 61, 1 => 62, 2 => 63, 3 => 64, _ => 1 + r.below(8) as usize };
        for _ in 0..n { out.push(*r.pick(LAB)); }
    }
    if r.chance(1, 4) { out.push(b'.'); }
    if hostile { match r.below(6) { 0 => out.insert(0, b'.'), 1 => { let i = r.below(out.len() as u64 + 1) as usize; out.insert(i, b'.'); }
                                     2 => { let i = r.below(out.len() as u64 + 1) as usize; out.insert(i, *r.pick(&[128u8, 129, 200, 255, 0, b' ', b'\\'])); }
                                     _ => {} } }
    out
}
fn gen_host(r: &mut Rng) -> String {
    if r.chance(1, 10) { let n = 120 + r.below(136) as usize; return String::from_utf8(long_name(r, n)).unwrap(); }
    let nl = 1 + r.below(3) as usize;
    let mut out = String::new();
    for k in 0..nl {
        if k > 0 { out.push('.'); }
        let n = match r.below(14) { 0 => 61, 1 => 62, 2 => 63, _ => 1 + r.below(8) as usize };
        out.push(*r.pick(&['a', 'Z', '0', '_', 'q']));
        for _ in 1..n { out.push(*r.pick(&['a', 'B', '7', '-', 'x'])); }
    }
    if r.chance(1, 4) { out.push('.'); }
    if r.chance(1, 12) { let i = r.below(out.len() as u64 + 1) as usize; out.insert(i, *r.pick(&['_', '-', '.', '!'])); }
    out
}
fn long_name(r: &mut Rng, wire_len: usize) -> Vec<u8> {
    // text whose wire form has exactly wire_len bytes: labels of 62 + one filler label
    let mut out: Vec<u8> = vec![]; let mut w = 1usize;
    while w + 63 + 2 <= wire_len { if !out.is_empty() { out.push(b'.'); } out.extend(std::iter::repeat(*r.pick(b"abcXYZ")).take(62)); w += 63; }
    let rest = wire_len - w;
    if rest >= 2 { if !out.is_empty() { out.push(b'.'); } out.extend(std::iter::repeat(b'y').take(rest - 1)); }
    out
}

pub fn gen(prop: &str, r: &mut Rng) -> Vec<String> {
    if prop == "c14" {
        let name = match r.below(8) { 0 => { let n = 248 + r.below(9) as usize; long_name(r, n) }, 1 => b".".to_vec(), _ => { let h = r.chance(1, 3); gen_text_name(r, h) } };
        let zone = if r.chance(1, 4) { let z = gen_text_name(r, false); ref_name_to_wire(strip_dot(&z), None).map(|w| hex(&w)).unwrap_or("-".into()) } else { "-".into() };
        return vec!["c14".into(), "name".into(), hex(&name), zone];
    }
    let name = |r: &mut Rng| -> Vec<u8> { if r.chance(1, 6) { let n = 120 + r.below(136) as usize; long_name(r, n) } else { let h = r.chance(1, 8); gen_text_name(r, h) } };
    match r.below(16) {
        0 => vec!["c13".into(), "build".into(), "mx".into(), hex(&name(r)), hex(&name(r)), (r.next() as u16).to_string()],
        1 => { let mut v = vec!["c13".to_string(), "build".into(), "soa".into(), hex(&name(r)), hex(&name(r)), hex(&name(r))]; for _ in 0..5 { v.push((r.next() as u32).to_string()); } v }
        2 => { let t = *r.pick(&["ns", "cname", "ptr"]); vec!["c13".into(), "build".into(), t.into(), hex(&name(r)), hex(&name(r))] }
        3 => { let n = *r.pick(&[0usize, 1, 254, 255, 256, 510, 511, 3825, 3826, 4000]); vec!["c13".into(), "build".into(), "txt".into(), hex(&name(r)), hex(&r.bytes(n))] }
        4 => { let n = r.below(40) as usize; vec!["c13".into(), "build".into(), "ds".into(), hex(&name(r)), hex(&r.bytes(n)), (r.next() as u16).to_string(), (r.next() as u8).to_string(), (r.next() as u8).to_string()] }
        5 => vec!["c13".into(), "build".into(), "a".into(), hex(&name(r)), hex(&r.bytes(4))],
        6 => vec!["c13".into(), "build".into(), "aaaa".into(), hex(&name(r)), hex(&r.bytes(16))],
        _ => {
            // record text
            let owner = gen_host(r);
            let ttl = match r.below(6) { 0 => "0".to_string(), 1 => "4294967295".into(), 2 => "4294967296".into(), 3 => "99999999999999999999".into(), _ => (r.next() as u32).to_string() };
            let ws = |r: &mut Rng| -> String { (0..1 + r.below(3)).map(|_| if r.chance(1, 3) { '\t' } else { ' ' }).collect() };
            let hn = |r: &mut Rng| -> String { gen_host(r) };
            let kw = |r: &mut Rng, s: &str| -> String { s.chars().map(|c| if r.chance(1, 2) { c.to_ascii_lowercase() } else { c }).collect() };
            // numbers: half of the time a value at or next to the limit of the field (max = largest value the field holds)
            let pad = |r: &mut Rng, v: u64| -> String { if r.chance(1, 12) { format!("{:0w$}", v, w = 11 + r.below(3) as usize) } else { v.to_string() } };
            let num = |r: &mut Rng, max: u64| -> u64 { if r.chance(1, 2) { *r.pick(&[0, 1, max / 2, max - 1, max, max + 1, max * 2 + 1]) } else { r.below(max + max / 16 + 2) } };
            let body = match r.below(11) {
10 => match r.below(6) {
                    3 => { let w = *r.pick(&["RSASHA1", "RSASHA256", "RSASHA512", "ECDSAP256SHA256", "ED25519", "ED448", "SHA1", "SHA256", "rsasha256", "DH"]);      // a mnemonic where a number belongs
                           let k = r.below(3); format!("{}{}{} {} {} {}", kw(r, "DS"), ws(r), if k == 0 { w.to_string() } else { num(r, 65535).to_string() }, if k == 1 { w.to_string() } else { num(r, 255).to_string() }, if k == 2 { w.to_string() } else { num(r, 255).to_string() }, hex(&r.bytes(4))) }
                    4 => { let u = *r.pick(&["s", "m", "h", "d", "w", "H", "k"]); let k = r.below(5) as usize;                                                          // a unit suffix on one SOA number
                           let nums: Vec<String> = (0..5).map(|i| { let v = r.below(100000); if i == k { format!("{}{}", v, u) } else { v.to_string() } }).collect();
                           format!("{}{}{}{}{}{}({})", kw(r, "SOA"), ws(r), hn(r), ws(r), hn(r), ws(r), nums.join(" ")) }
                    5 => { let lab = |r: &mut Rng| -> String { let n = 1 + r.below(3); (0..n).map(|_| r.below(100).to_string()).collect::<Vec<_>>().join("-") };       // names of digits and inner hyphens only
                           let n = format!("{}.{}{}", lab(r), lab(r), if r.chance(1, 2) { "." } else { "" });
                           let k = *r.pick(&["NS", "CNAME", "PTR"]); format!("{}{}{}", kw(r, k), ws(r), n) }
                    0 => { let t = *r.pick(&["SRV", "NAPTR", "ANY", "AXFR"]); format!("{} {}", kw(r, t), hn(r)) }                       // a type outside the nine supported ones
                    1 => format!("{}{}{} {} {} {}g{}", kw(r, "DS"), ws(r), num(r, 65535), num(r, 255), num(r, 255), hex(&r.bytes(2)), hex(&r.bytes(1))),   // a non-hex digit in the digest
                    _ => match r.below(3) {
                        0 => format!("{}{}{}", kw(r, "A"), ws(r), (0..4).map(|i| if i == 2 { (256 + r.below(800)).to_string() } else { r.below(256).to_string() }).collect::<Vec<_>>().join(".")),
                        1 => { let k = *r.pick(&[3usize, 5]); format!("{}{}{}", kw(r, "A"), ws(r), (0..k).map(|_| r.below(256).to_string()).collect::<Vec<_>>().join(".")) }
                        _ => format!("{}{}{}.{}", kw(r, "A"), ws(r), (0..4).map(|_| r.below(256).to_string()).collect::<Vec<_>>().join("."), if r.chance(1, 2) { "" } else { "." }) } },
                9 => { // TXT with a few escapes: valid (\\000, \\065, \\255), out of range (\\256, \\300, \\999), too short (\\25), escaped quote
                       let k = 1 + r.below(4) as usize;
                       let inner: String = (0..k).map(|_| *r.pick(&["a", "bc", " ", "\\000", "\\065", "\\255", "\\256", "\\300", "\\999", "\\25", "\\\"", "7", "\\2555", "\x7f", "~", "!", "\x1f", "\t"])).collect();
                       format!("{}{}\"{}\"", kw(r, "TXT"), ws(r), inner) }
                0 => format!("{}{}{}", kw(r, "A"), ws(r), (0..4).map(|_| { let v = num(r, 255); if r.chance(1, 10) { format!("{:03}", v) } else { v.to_string() } }).collect::<Vec<_>>().join(".")),
                1 => { let a = match r.below(6) {
                           0 => format!("{:X}:{:x}::{:X}", r.next() as u16, r.next() as u16, r.next() as u16),
                           1 => (0..8).map(|_| format!("{:x}", r.next() as u16)).collect::<Vec<_>>().join(":"),
                           2 => "::".to_string(), 3 => (*r.pick(&["::1", "1:2:3:4:5:6:7:8:9", "1::2::3", "12345::1", ":", "1:2"])).to_string(),
                           4 => format!("::ffff:{}.{}.{}.{}", r.below(256), r.below(256), r.below(256), r.below(256)),
                           _ => format!("{:x}:{:x}::{:x}", r.next() as u16, r.next() as u16, r.next() as u16) };
                       format!("{}{}{}", kw(r, "AAAA"), ws(r), a) }
                2 => { let k = *r.pick(&["NS", "CNAME", "PTR"]); format!("{}{}{}", kw(r, k), ws(r), hn(r)) }
                3 => { let v = num(r, 65535); format!("{}{}{}{}{}", kw(r, "MX"), ws(r), pad(r, v), ws(r), hn(r)) }
                4 => format!("{}{}{}{}{}{}({} {} {} {} {}){}", kw(r, "SOA"), ws(r), hn(r), ws(r), hn(r), if r.chance(1, 4) { String::new() } else { ws(r) }, { let v = num(r, 4294967295); pad(r, v) }, r.next() as u32, r.below(5000000000), num(r, 4294967295), r.next() as u32, if r.chance(1, 3) { " " } else { "" }),
                5 => { let n = r.below(9) as usize; format!("{}{}{} {} {} {}", kw(r, "DS"), ws(r), num(r, 65535), num(r, 255), num(r, 255), hex(&r.bytes(n)).replace("-", "") + if r.chance(1, 3) { "a" } else { "" }) }
                6 => { let n = *r.pick(&[0usize, 3, 255, 256, 300]); format!("{}{}\"{}\"", kw(r, "TXT"), ws(r), (0..n).map(|_| *r.pick(&['a', 'b', ' ', '\\', '0', '4', '6', '"'])).collect::<String>()) }
                7 => format!("{}{}{}", kw(r, "TXT"), ws(r), (0..r.below(6)).map(|_| *r.pick(&['a', '\\', '1', '9', '"'])).collect::<String>()),
                _ => { let k = *r.pick(&["MX", "SOA", "DS", "A", "NS"]); format!("{} {}", kw(r, k), hn(r)) }
            };
            // a zero-padded TTL (11..13 digits) now and then: still the same number
            let ttl = if r.chance(1, 15) && ttl.bytes().all(|c| c.is_ascii_digit()) && ttl.len() <= 10 { format!("{:0>w$}", ttl, w = 11 + r.below(3) as usize) } else { ttl };
            // a missing TTL field now and then (the class then stands where the TTL should)
            let ttl = if r.chance(1, 25) { String::new() } else { ttl };
            let class = if r.chance(1, 25) { let c = *r.pick(&["CH", "HS", "ANY", "INN", "I"]); kw(r, c) } else { kw(r, "IN") };
            // the TTL field: now and then with a sign, a letter or a blank-free suffix
            let ttl = if r.chance(1, 25) { format!("{}{}{}", *r.pick(&["+", "-", "", ""]), ttl, *r.pick(&["", "x", "s", ".0"])) } else { ttl.to_string() };
            let mut text = if ttl.is_empty() { format!("{}{}{}{}{}", owner, ws(r), class, ws(r), body) } else { format!("{}{}{}{}{}{}{}", owner, ws(r), ttl, ws(r), class, ws(r), body) };
            // the SOA number group with one of its parentheses missing
            if r.chance(1, 20) { if let Some(i) = text.find('(') { if r.chance(1, 2) { text.replace_range(i..i + 1, " "); } else if let Some(j) = text.rfind(')') { text.replace_range(j..j + 1, ""); } } }
            if r.chance(1, 6) { let n = r.below(text.len() as u64 + 1) as usize; if text.is_char_boundary(n) { text.truncate(n); } }
            if r.chance(1, 8) { text.push_str(" extra"); }
            if r.chance(1, 20) { text.push_str(*r.pick(&["\n", "\r\n", " \n", "\x0c"])); }
            // the blank after the type keyword removed (only where the data starts with a quote or a colon)
            if r.chance(1, 10) {
                let b = text.as_bytes();
                let want = if ttl.is_empty() { 3 } else { 4 };
                let mut p = 0; let mut seen = 0;
                while p < b.len() && seen < want { while p < b.len() && (b[p] == b' ' || b[p] == b'\t') { p += 1; } while p < b.len() && b[p] != b' ' && b[p] != b'\t' { p += 1; } seen += 1; }
                let mut q = p; while q < b.len() && (b[q] == b' ' || b[q] == b'\t') { q += 1; }
                if seen == want && q > p && q < b.len() && (b[q] == b'"' || b[q] == b':') && text.is_char_boundary(p) && text.is_char_boundary(q) { text.replace_range(p..q, ""); }
            }
            vec!["c13".into(), "text".into(), hex(text.as_bytes())]
        }
    }
}
