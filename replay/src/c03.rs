#![allow(unused)]
use crate::util::*;
pub fn replay(_a: &[&str]) -> Result<(), String> { Err("not implemented".into()) }
pub fn gen(_r: &mut Rng) -> Vec<String> { vec![] }
