//! C03: every accepted packet reads back completely and faithfully via the iterators.
use crate::util::*;
use crate::wire::{self, Rec};
use dnssector::*;
use std::net::IpAddr;

fn check_item<T: DNSIterable + TypedIterable + RdataIterable>(it: &T, r: &Rec, p: &[u8], sec: Section) -> Result<(), String> {
    if it.offset() != Some(r.off) { return Err(format!("cursor at {:?}, record is at {}", it.offset(), r.off)); }
    if it.name() != wire::to_text(&r.name) { return Err(format!("name() = {:?} at {}", String::from_utf8_lossy(&it.name()), r.off)); }
    let mut raw = vec![0xAA];
    let n = it.copy_raw_name(&mut raw);
    if raw[0] != 0xAA || raw[1..] != r.name[..] || n != r.name.len() { return Err(format!("copy_raw_name at {}", r.off)); }
    if it.rr_type() != r.rtype { return Err("rr_type".into()); }
    if it.rr_class() != r.class { return Err("rr_class".into()); }
    if it.rr_ttl() != r.ttl { return Err("rr_ttl".into()); }
    if it.rr_rdlen() != r.rdlen { return Err("rr_rdlen".into()); }
    if it.current_section().map_err(|e| e.to_string())? != sec { return Err(format!("current_section at {}", r.off)); }
    let rd = &p[r.name_end + 10..r.end];
    match it.rr_rd().map_err(|e| e.to_string())? {
        RawRRData::IpAddr(IpAddr::V4(a)) => { if r.rtype != 1 || a.octets()[..] != rd[..] { return Err("rr_rd v4".into()); } }
        RawRRData::IpAddr(IpAddr::V6(a)) => { if r.rtype != 28 || a.octets()[..] != rd[..] { return Err("rr_rd v6".into()); } }
        RawRRData::Data(d) => { if r.rtype == 1 || r.rtype == 28 || d != rd { return Err("rr_rd data".into()); } }
    }
    match (it.rr_ip(), r.rtype) {
        (Ok(IpAddr::V4(a)), 1) => { if a.octets()[..] != rd[..] { return Err("rr_ip v4".into()); } }
        (Ok(IpAddr::V6(a)), 28) => { if a.octets()[..] != rd[..] { return Err("rr_ip v6".into()); } }
        (Err(_), t) if t != 1 && t != 28 => {}
        _ => return Err("rr_ip".into()),
    }
    if it.offset_next() != r.end { return Err("offset_next".into()); }
    Ok(())
}

/// ops: walk <hex>
pub fn replay(a: &[&str]) -> Result<(), String> {
    if a.len() < 2 || a[0] != "walk" { return Err("usage: c03 walk <hex>".into()); }
    let p = unhex(a[1])?;
    let m = match wire::parse_ref(&p) { Some(m) => m, None => return Ok(()) };   // C03 quantifies over accepted packets
    let mut pp = match DNSSector::new(p.clone()).map_err(|e| e.to_string())?.parse() { Ok(pp) => pp, Err(_) => return Ok(()) };
    // question
    {
        let mut n = 0;
        let mut it = pp.into_iter_question();
        while let Some(item) = it {
            if item.offset() != Some(12) { return Err("question offset".into()); }
            if item.name() != wire::to_text(&m.qname) { return Err("question name()".into()); }
            let mut raw = vec![];
            item.copy_raw_name(&mut raw);
            if raw != m.qname { return Err("question copy_raw_name".into()); }
            if item.rr_type() != m.qtype || item.rr_class() != m.qclass { return Err("question type/class".into()); }
            if item.current_section().map_err(|e| e.to_string())? != Section::Question { return Err("question current_section".into()); }
            n += 1;
            it = item.next();
        }
        if n != 1 { return Err(format!("question section yielded {} records", n)); }
    }
    for (secno, sec) in [(1u8, Section::Answer), (2, Section::NameServers), (3, Section::Additional)] {
        let want: Vec<&Rec> = m.recs.iter().filter(|r| r.section == secno).collect();
        // OPT skipped
        let want_noopt: Vec<&Rec> = want.iter().cloned().filter(|r| r.rtype != 41).collect();
        let mut k = 0;
        let mut it = match sec { Section::Answer => pp.into_iter_answer(), Section::NameServers => pp.into_iter_nameservers(), _ => pp.into_iter_additional() };
        while let Some(item) = it {
            if k >= want_noopt.len() { return Err(format!("section {} yields more records than present", secno)); }
            check_item(&item, want_noopt[k], &p, sec)?;
            k += 1;
            it = item.next();
        }
        if k != want_noopt.len() { return Err(format!("section {} (OPT skipped): visited {} of {}", secno, k, want_noopt.len())); }
        // OPT included
        if secno == 3 {
            let mut k = 0;
            let mut it = pp.into_iter_additional_including_opt();
            while let Some(item) = it {
                if k >= want.len() { return Err("additional (including OPT) yields more records than present".into()); }
                check_item(&item, want[k], &p, sec)?;
                k += 1;
                it = item.next_including_opt();
            }
            if k != want.len() { return Err(format!("additional (including OPT): visited {} of {}", k, want.len())); }
        }
    }
    // EDNS options
    {
        let mut k = 0;
        let mut it = pp.into_iter_edns();
        while let Some(item) = it {
            if k >= m.options.len() { return Err("edns yields more options than present".into()); }
            if item.offset() != Some(m.options[k].0) { return Err("edns option offset".into()); }
            if item.offset_next() != m.options[k].0 + 4 + m.options[k].2 { return Err("edns option end".into()); }
            k += 1;
            it = item.next();
        }
        if k != m.options.len() { return Err(format!("edns: visited {} of {}", k, m.options.len())); }
    }
    if pp.packet.as_deref() != Some(&p[..]) { return Err("readers altered the bytes".into()); }
    Ok(())
}

pub fn gen(r: &mut Rng) -> Vec<String> {
    let c = r.chance(3, 4);
    let p = if r.chance(1, 30) { wire::gen_boundary(r) } else { wire::gen_valid(r, c) };
    vec!["c03".into(), "walk".into(), hex(&p)]
}
