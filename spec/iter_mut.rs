// ===== spec/iter_mut.rs: a cursor of a record section meets the preconditions of the mutating trait methods, and is again a valid cursor afterwards (C08) =====
// the in-place end of a name depends only on the bytes up to it
pub proof fn lemma_skip_range(p: Seq<u8>, a: int, e: int, i: int)
    requires 0 <= a <= i, skip_walk(p, i) matches Some(x) && x <= e, e <= p.len()
    ensures skip_walk(p.subrange(a, e), i - a) == Some(skip_walk(p, i).unwrap() - a)
    decreases p.len() - i
{
    let s = p.subrange(a, e);
    let b = p[i];
    lemma_skip_bounds(p, i);
    assert(s[i - a] == b);
    if b == 0 { } else if b & 0xc0 == 0xc0 { } else { lemma_skip_bounds(p, i + b + 1); lemma_skip_range(p, a, e, i + b + 1); }
}
pub proof fn lemma_mid_ok_eq<T: DNSIterable + ?Sized>(mid: ParsedPacket, pp: ParsedPacket, o: usize, ne: int, next: int)
    requires pp_eq(mid, pp), pp.packet.is_some(), mid_ok::<T>(pp, o, ne, next)
    ensures mid_ok::<T>(mid, o, ne, next)
{ }
pub proof fn lemma_del_ok_eq(mid: ParsedPacket, pp: ParsedPacket, o: usize, ne: int, next: int, s: Section)
    requires pp_eq(mid, pp), pp.packet.is_some(), del_ok(pp, o, ne, next, s)
    ensures del_ok(mid, o, ne, next, s)
{ }

// the cursor facts of record k of record section si of a well-formed object over a pointer-free packet
pub proof fn lemma_rec_cursor(pp: ParsedPacket, si: int, k: int)
    requires pp.wf(), pf_packet(pp.bytes()), 1 <= si <= 3, 0 <= k < sec_n(pp.bytes(), si), pp.bytes().len() <= 0xffff
    ensures ({ let u = pp.bytes(); let off = pf_rrs_end(u, sec_st(u, si), k); let ne = pcs_end(u, off).unwrap(); let next = pf_end(u, off);
        0 <= off <= usize::MAX && pf_rr(u, off) && cursor_ok(pp, off as usize, ne, next) && del_ok(pp, off as usize, ne, next, sec_of_idx(si))
        && skip_walk(u.subrange(off, ne), 0) == Some(ne - off)
        && (!pf_is_opt(u, off) ==> forall|nm: Seq<u8>| is_cname(nm) ==> #[trigger] rec_ok(splice(u, off, ne, nm), off)) }),
{
    hide(pf_rr); hide(pf_rrs); hide(pf_rrs_end); hide(pf_n_opt); hide(pf_packet); hide(opt_at); hide(ParsedPacket::wf); hide(pcs_walk); hide(skip_walk); hide(rec_ok); hide(opts);
    let u = pp.bytes(); let st = sec_st(u, si); let n = sec_n(u, si); let off = pf_rrs_end(u, st, k); let ne = pcs_end(u, off).unwrap(); let next = pf_end(u, off);
    lemma_wf_offsets(pp);
    lemma_section_at(pp, si, k);
    lemma_pf_packet_facts(u);
    lemma_opt_at_3(u, st, n, k, 1);
    lemma_pf_rr_spec(u, off, SecT::Answer, false);
    lemma_pcs_bounds(u, off, 0);
    assert(pcs_end(u, off).is_some() && off < ne && ne + 10 <= next && next <= u.len()) by { reveal(pf_rr); }
    // the OPT data offset, when there is one, is not strictly inside (off, ne)
    let e2 = pf_e2(u); let ar = be16(u, 10) as int;
    if si == 3 {
        lemma_opt_at_shift(u, e2, k, u, e2);
        lemma_opt_at_shift(u, next, ar - k - 1, u, next);
    }
    // the in-place name
    lemma_pcs_name_end(u, off);
    lemma_name_end_skip(u, off);
    lemma_skip_range(u, off, ne, off);
    assert(0 <= off <= usize::MAX && pf_rr(u, off));
    assert(skip_walk(u.subrange(off, ne), 0) == Some(ne - off));
    assert(section_at(pp, Some(off as usize)) == sec_of_idx(si));
    assert(pp.offset_edns matches Some(e) ==> e <= u.len() && ((off as usize) < e ==> ne <= e));
    assert(cursor_ok(pp, off as usize, ne, next));
    assert(del_ok(pp, off as usize, ne, next, sec_of_idx(si)));
    // every clean replacement name gives a structurally valid record
    if !pf_is_opt(u, off) {
        assert forall|nm: Seq<u8>| is_cname(nm) implies #[trigger] rec_ok(splice(u, off, ne, nm), off) by {
            let v = splice(u, off, ne, nm);
            assert forall|i: int| 0 <= i < nm.len() implies v[off + i] == nm[i] by { }
            assert forall|j: int| 0 <= j < next - ne implies #[trigger] v[off + nm.len() + j] == u[ne + j] by { }
            lemma_pf_rr_rename(u, off, v, nm);
            lemma_pf_rec(v, off);
        }
    }
}
