// ===== spec/text.rs: presentation-format host names -> wire names (C14).  Written from the property text:
// "labels are exactly the dot-separated labels of the input", "completed with a default zone unless it ends in a dot". =====
pub open spec fn label_end(s: Seq<u8>, i: int) -> int
    decreases s.len() - i
{ if i >= s.len() { s.len() as int } else if s[i] == 46 { i } else { label_end(s, i + 1) } }

pub open spec fn has_hi(s: Seq<u8>, a: int, b: int) -> bool { exists|k: int| a <= k < b && #[trigger] s[k] > 128 }
pub open spec fn term(zone: Option<Seq<u8>>) -> Seq<u8> { match zone { Some(z) => z, None => seq![0u8] } }

// encoding of the labels starting at label start i
pub open spec fn enc_from(s: Seq<u8>, i: int, zone: Option<Seq<u8>>) -> Option<Seq<u8>>
    decreases s.len() - i
{
    if i < 0 || i > s.len() { None } else {
    let e = label_end(s, i);
    if e < i || e > s.len() { None }
    else if e == i { if i == s.len() { Some(seq![0u8]) } else { None } }          // trailing dot: root; empty interior label: error
    else if e - i > 62 || has_hi(s, i, e) { None }
    else if e == s.len() { Some(seq![(e - i) as u8] + s.subrange(i, e) + term(zone)) }   // no trailing dot: the default zone completes the name
    else { match enc_from(s, e + 1, zone) { Some(r) => Some(seq![(e - i) as u8] + s.subrange(i, e) + r), None => None } } }
}
pub open spec fn name_to_wire(s: Seq<u8>, zone: Option<Seq<u8>>) -> Option<Seq<u8>> {
    if s.len() > 253 { None }
    else if s.len() == 1 && s[0] == 46 { Some(seq![0u8]) }
    else { enc_from(s, 0, zone) }
}
pub open spec fn ozone(z: Option<&[u8]>) -> Option<Seq<u8>> { match z { Some(x) => Some(x@), None => None } }

pub proof fn lemma_label_end(s: Seq<u8>, i: int)
    requires 0 <= i <= s.len()
    ensures i <= label_end(s, i) <= s.len(), forall|k: int| i <= k < label_end(s, i) ==> s[k] != 46, label_end(s, i) < s.len() ==> s[label_end(s, i)] == 46
    decreases s.len() - i
{ if i < s.len() && s[i] != 46 { lemma_label_end(s, i + 1); } }
pub proof fn lemma_label_end_skip(s: Seq<u8>, a: int, i: int)
    requires 0 <= a <= i <= s.len(), forall|k: int| a <= k < i ==> s[k] != 46
    ensures label_end(s, a) == label_end(s, i)
    decreases i - a
{ if a < i { lemma_label_end_skip(s, a + 1, i); } }

// ---- C14 clause: the result is a well-formed pointer-free wire name, labels <= 62 (< 63), and with no default zone it ends in the root label
pub proof fn lemma_enc_valid(s: Seq<u8>, i: int, nlen: int)
    requires enc_from(s, i, None) matches Some(w) && nlen >= 0 && nlen + w.len() <= 255
    ensures plain_walk(enc_from(s, i, None).unwrap(), 0, nlen) == Some(enc_from(s, i, None).unwrap().len() as int)
    decreases s.len() - i
{
    let w = enc_from(s, i, None).unwrap();
    let e = label_end(s, i);
    lemma_label_end(s, i);
    if e == i { assert(0u8 & 0xc0 != 0xc0) by(bit_vector); }
    else {
        let l = (e - i) as u8;
        assert(l <= 62 ==> l & 0xc0 != 0xc0) by(bit_vector);
        if e == s.len() {
            let w2 = seq![0u8];
            assert(0u8 & 0xc0 != 0xc0) by(bit_vector);
            assert(w[0] == l);
            assert(w[e - i + 1] == 0);
            reveal_with_fuel(plain_walk, 2);
        } else {
            let r = enc_from(s, e + 1, None).unwrap();
            lemma_enc_valid(s, e + 1, nlen + l + 1);
            lemma_plain_bounds(r, 0, nlen + l + 1);
            assert(w[0] == l);
            assert forall|k: int| 0 <= k < r.len() implies r[k] == w[k + l + 1] by { }
            lemma_plain_shift(r, 0, w, l as int + 1, nlen + l + 1);
        }
    }
}
pub proof fn lemma_wire_valid(s: Seq<u8>)
    requires name_to_wire(s, None) matches Some(w) && w.len() <= 253
    ensures plain_end(name_to_wire(s, None).unwrap(), 0) == Some(name_to_wire(s, None).unwrap().len() as int)
{
    if s.len() == 1 && s[0] == 46 { assert(0u8 & 0xc0 != 0xc0) by(bit_vector); } else { lemma_enc_valid(s, 0, 0); }
}

// ---- C14 clause: "every name made of letter-digit-hyphen-underscore labels of at most 62 bytes with a wire length of at most 253 is accepted"
pub open spec fn ldh(c: u8) -> bool { (48 <= c <= 57) || (65 <= c <= 90) || (97 <= c <= 122) || c == 45 || c == 95 }
// s[i..] consists of non-empty LDH labels of at most 62 bytes separated by single dots (an optional final dot allowed)
pub open spec fn ldh_labels(s: Seq<u8>, i: int) -> bool
    decreases s.len() - i
{
    if i < 0 || i > s.len() { false } else if i == s.len() { true } else {
    let e = label_end(s, i);
    0 < e - i <= 62 && e <= s.len() && (forall|k: int| i <= k < e ==> ldh(#[trigger] s[k])) && (e == s.len() || ldh_labels(s, e + 1)) }
}
pub proof fn lemma_ldh_accepted(s: Seq<u8>, i: int, zone: Option<Seq<u8>>)
    requires ldh_labels(s, i), 0 <= i <= s.len()
    ensures enc_from(s, i, zone).is_some()
    decreases s.len() - i
{
    if i < s.len() {
        let e = label_end(s, i);
        lemma_label_end(s, i);
        assert(!has_hi(s, i, e)) by { if has_hi(s, i, e) { let k = choose|k: int| i <= k < e && #[trigger] s[k] > 128; assert(ldh(s[k])); } }
        if e < s.len() { lemma_ldh_accepted(s, e + 1, zone); }
    }
}

// ---- C14 clauses: rejection of an empty interior label, an over-long label, an over-long total
pub proof fn lemma_reject_empty_label(s: Seq<u8>, i: int, zone: Option<Seq<u8>>)
    requires 0 <= i < s.len(), s[i] == 46        // a label start that is a dot: leading dot or two dots in a row
    ensures enc_from(s, i, zone) is None
{ }
pub proof fn lemma_reject_long_label(s: Seq<u8>, i: int, zone: Option<Seq<u8>>)
    requires 0 <= i, i + 63 <= s.len(), forall|k: int| i <= k < i + 63 ==> s[k] != 46
    ensures enc_from(s, i, zone) is None
{
    lemma_label_end(s, i); lemma_label_end_skip(s, i, i + 63); lemma_label_end(s, i + 63);
}
pub proof fn lemma_reject_long_total(s: Seq<u8>, zone: Option<Seq<u8>>)
    requires s.len() > 253
    ensures name_to_wire(s, zone) is None
{ }
// rejection propagates from a later label start to the whole name
pub proof fn lemma_reject_propagates(s: Seq<u8>, i: int, zone: Option<Seq<u8>>)
    requires 0 <= i <= s.len(), label_end(s, i) < s.len(), enc_from(s, label_end(s, i) + 1, zone) is None
    ensures enc_from(s, i, zone) is None
{ lemma_label_end(s, i); }

// ---- C14 clause: reads back as the input without its trailing dot (labels contain no dot, so no escaping happens)
pub open spec fn strip_dot(s: Seq<u8>) -> Seq<u8> { if s.len() > 0 && s.last() == 46 { s.drop_last() } else { s } }
pub proof fn lemma_roundtrip(s: Seq<u8>, i: int, first: bool)
    requires enc_from(s, i, None) matches Some(w) && w.len() <= 255, 0 <= i <= s.len()
    ensures wire_txt(enc_from(s, i, None).unwrap(), 0, first)
        == (if i == s.len() { Seq::<u8>::empty() } else { (if first { Seq::<u8>::empty() } else { seq![46u8] }) + strip_dot(s.subrange(i, s.len() as int)) })
    decreases s.len() - i
{
    let w = enc_from(s, i, None).unwrap();
    let e = label_end(s, i);
    lemma_label_end(s, i);
    if e == i { } else {
        let l = (e - i) as u8;
        let lab = s.subrange(i, e);
        assert(w[0] == l);
        assert(w.subrange(1, 1 + l) =~= lab);
        lemma_esc_clean(lab);
        if e == s.len() {
            assert(w[l as int + 1] == 0);
            reveal_with_fuel(wire_txt, 2);
            assert(strip_dot(s.subrange(i, s.len() as int)) =~= lab);
            assert(wire_txt(w, l as int + 1, false) =~= Seq::<u8>::empty());
        } else {
            let r = enc_from(s, e + 1, None).unwrap();
            lemma_roundtrip(s, e + 1, false);
            lemma_enc_valid(s, e + 1, 0);
            lemma_plain_bounds(r, 0, 0);
            assert forall|k: int| 0 <= k < r.len() implies r[k] == w[k + l + 1] by { }
            lemma_wire_txt_shift_plain(r, 0, w, l as int + 1, 0, false);
            let rest = s.subrange(e + 1, s.len() as int);
            let whole = s.subrange(i, s.len() as int);
            if e + 1 == s.len() {
                assert(strip_dot(whole) =~= lab);
            } else {
                assert(whole.last() == rest.last());
                assert(strip_dot(whole) =~= lab + seq![46u8] + strip_dot(rest));
            }
        }
    }
}
// wire_txt only looks at the bytes of the name (plain version of the shift lemma)
pub proof fn lemma_wire_txt_shift_plain(w1: Seq<u8>, a: int, w2: Seq<u8>, b: int, nlen: int, first: bool)
    requires plain_walk(w1, a, nlen) matches Some(e) && b >= 0 && b + (e - a) <= w2.len() && (forall|i: int| a <= i < e ==> w1[i] == w2[i - a + b]),
    ensures wire_txt(w2, b, first) == wire_txt(w1, a, first)
    decreases w1.len() - a
{
    lemma_plain_bounds(w1, a, nlen);
    let l = w1[a];
    assert(w2[b] == l);
    if l != 0 {
        lemma_plain_bounds(w1, a + l + 1, nlen + l + 1);
        assert(w1.subrange(a + 1, a + 1 + l) =~= w2.subrange(b + 1, b + 1 + l));
        lemma_wire_txt_shift_plain(w1, a + l + 1, w2, b + l + 1, nlen + l + 1, false);
    }
}
