// ===== spec/wire.rs: the wire-format specification (layer 0).  Every limit is a literal taken from the property
// statements (C02): 63, 255, 16, 12, 4, 16, 20, 41 ... -- never one of the crate's constants. =====

pub open spec fn bad_char(c: u8) -> bool { c < 32 || c == 127 || c == 46 || c == 92 }   // control, '.', '\\'
pub open spec fn has_bad(p: Seq<u8>, a: int, b: int) -> bool {
    exists|i: int| a <= i < b && bad_char(#[trigger] p[i])
}
pub open spec fn ptr_target(hi: u8, lo: u8) -> int { ((((hi & 0x3f) as u16) << 8) | (lo as u16)) as int }

// The compressed-name rule, one clause per phrase of C02.  `barrier` = start of the previous segment (labels read
// after a jump must end before it), `lowest` = lowest offset visited so far (pointer targets must be strictly below),
// `refs` = pointers still allowed, `nlen` = wire length accumulated, `fend` = end of the in-place encoding once known.
pub open spec fn walk(p: Seq<u8>, off: int, barrier: int, lowest: int, refs: int, nlen: int, fend: Option<int>) -> Option<int>
    decreases refs, p.len() - off
{
    if !(0 <= lowest <= off && refs >= 0) { None }
    else if off >= barrier || off >= p.len() { None }
    else { let b = p[off];
        if b & 0xc0 == 0xc0 {
            if refs <= 0 || off + 2 > p.len() { None }                       // "at most 16 per name"
            else { let t = ptr_target(b, p[off + 1]);
                if t >= lowest { None }                                      // "strictly backward"
                else if p[t] == 0 { None }                                   // "never to a root label"
                else { walk(p, t, lowest, t, refs - 1, nlen, if fend.is_some() { fend } else { Some(off + 2) }) } }
        } else if b > 63 { None }                                            // "labels of at most 63 bytes"
        else if off + b + 1 > p.len() { None }
        else if nlen + b + 1 > 255 { None }                                  // "totalling at most 255"
        else if has_bad(p, off + 1, off + 1 + b) { None }                    // "no control characters, dots or backslashes"
        else if b == 0 { Some(if fend.is_some() { fend.unwrap() } else { off + 1 }) }
        else { walk(p, off + b + 1, barrier, lowest, refs, nlen + b + 1, fend) } }
}
pub open spec fn name_end(p: Seq<u8>, off: int) -> Option<int> {
    if off < 0 || off >= p.len() { None } else { walk(p, off, p.len() as int, off, 16, 0, None) }
}

// the pointer-free expansion of the name (same recursion as `walk`)
pub open spec fn exp(p: Seq<u8>, off: int, barrier: int, lowest: int, refs: int, nlen: int) -> Seq<u8>
    decreases refs, p.len() - off
{
    if !(0 <= lowest <= off && refs >= 0) { Seq::<u8>::empty() }
    else if off >= barrier || off >= p.len() { Seq::<u8>::empty() }
    else { let b = p[off];
        if b & 0xc0 == 0xc0 {
            if refs <= 0 || off + 2 > p.len() { Seq::<u8>::empty() }
            else { let t = ptr_target(b, p[off + 1]);
                if t >= lowest { Seq::<u8>::empty() }
                else if p[t] == 0 { Seq::<u8>::empty() }
                else { exp(p, t, lowest, t, refs - 1, nlen) } }
        } else if b > 63 { Seq::<u8>::empty() }
        else if off + b + 1 > p.len() { Seq::<u8>::empty() }
        else if nlen + b + 1 > 255 { Seq::<u8>::empty() }
        else if has_bad(p, off + 1, off + 1 + b) { Seq::<u8>::empty() }
        else if b == 0 { seq![0u8] }
        else { p.subrange(off, off + b + 1) + exp(p, off + b + 1, barrier, lowest, refs, nlen + b + 1) } }
}
pub open spec fn name_exp(p: Seq<u8>, off: int) -> Seq<u8> { exp(p, off, p.len() as int, off, 16, 0) }

// walk does not depend on the remembered end: only on whether one is remembered
pub proof fn lemma_walk_fend(p: Seq<u8>, off: int, barrier: int, lowest: int, refs: int, nlen: int, f1: Option<int>, f2: Option<int>)
    ensures walk(p, off, barrier, lowest, refs, nlen, f1).is_some() == walk(p, off, barrier, lowest, refs, nlen, f2).is_some()
    decreases refs, p.len() - off
{
    if !(0 <= lowest <= off && refs >= 0) {}
    else if off >= barrier || off >= p.len() {}
    else {
        let b = p[off];
        if b & 0xc0 == 0xc0 {
            if refs <= 0 || off + 2 > p.len() {} else {
                let t = ptr_target(b, p[off + 1]);
                if t >= lowest {} else if p[t] == 0 {} else {
                    lemma_walk_fend(p, t, lowest, t, refs - 1, nlen, if f1.is_some() { f1 } else { Some(off + 2) }, if f2.is_some() { f2 } else { Some(off + 2) });
                }
            }
        } else if b > 63 {} else if off + b + 1 > p.len() {} else if nlen + b + 1 > 255 {} else if has_bad(p, off + 1, off + 1 + b) {} else if b == 0 {} else {
            lemma_walk_fend(p, off + b + 1, barrier, lowest, refs, nlen + b + 1, f1, f2);
        }
    }
}
// length of the expansion of a valid name: nlen + |exp| <= 255, |exp| >= 1, ends with the root label
pub proof fn lemma_exp_len(p: Seq<u8>, off: int, barrier: int, lowest: int, refs: int, nlen: int, fend: Option<int>)
    requires walk(p, off, barrier, lowest, refs, nlen, fend).is_some(), nlen >= 0
    ensures 1 <= exp(p, off, barrier, lowest, refs, nlen).len() <= 255 - nlen,
            exp(p, off, barrier, lowest, refs, nlen).last() == 0,
    decreases refs, p.len() - off
{
    let b = p[off];
    if b & 0xc0 == 0xc0 {
        let t = ptr_target(b, p[off + 1]);
        lemma_exp_len(p, t, lowest, t, refs - 1, nlen, if fend.is_some() { fend } else { Some(off + 2) });
    } else if b == 0 { } else {
        lemma_exp_len(p, off + b + 1, barrier, lowest, refs, nlen + b + 1, fend);
    }
}

pub proof fn lemma_walk_bounds(p: Seq<u8>, off: int, barrier: int, lowest: int, refs: int, nlen: int, fend: Option<int>)
    requires barrier <= p.len(), fend.is_some() ==> 0 < fend.unwrap() <= p.len(),
    ensures walk(p, off, barrier, lowest, refs, nlen, fend) matches Some(e) ==> (0 < e <= p.len() && (fend.is_some() ==> e == fend.unwrap()) && (fend.is_none() ==> e > lowest && e > off)),
    decreases refs, p.len() - off
{
    if !(0 <= lowest <= off && refs >= 0) {}
    else if off >= barrier || off >= p.len() {}
    else {
        let b = p[off];
        if b & 0xc0 == 0xc0 {
            if refs <= 0 || off + 2 > p.len() {} else {
                let t = ptr_target(b, p[off + 1]);
                if t >= lowest {} else if p[t] == 0 {} else {
                    lemma_walk_bounds(p, t, lowest, t, refs - 1, nlen, if fend.is_some() { fend } else { Some(off + 2) });
                }
            }
        } else if b > 63 {} else if off + b + 1 > p.len() {} else if nlen + b + 1 > 255 {} else if has_bad(p, off + 1, off + 1 + b) {} else if b == 0 {} else {
            lemma_walk_bounds(p, off + b + 1, barrier, lowest, refs, nlen + b + 1, fend);
        }
    }
}
pub proof fn lemma_name_end_bounds(p: Seq<u8>, off: int)
    ensures name_end(p, off) matches Some(e) ==> off < e <= p.len()
{
    if 0 <= off < p.len() { lemma_walk_bounds(p, off, p.len() as int, off, 16, 0, None); }
}

// pointer-free rule, any label bytes (DNAME data; argument of set_raw_name)
pub open spec fn plain_walk(p: Seq<u8>, off: int, nlen: int) -> Option<int>
    decreases p.len() - off
{
    if off < 0 || off >= p.len() { None }
    else {
        let b = p[off];
        if b & 0xc0 == 0xc0 { None }
        else if b > 63 { None }
        else if off + b + 1 > p.len() { None }
        else if nlen + b + 1 > 255 { None }
        else if b == 0 { Some(off + 1) }
        else { plain_walk(p, off + b + 1, nlen + b + 1) }
    }
}
pub open spec fn plain_end(p: Seq<u8>, off: int) -> Option<int> { plain_walk(p, off, 0) }
pub proof fn lemma_plain_bounds(p: Seq<u8>, off: int, nlen: int)
    ensures plain_walk(p, off, nlen) matches Some(e) ==> off < e <= p.len()
    decreases p.len() - off
{
    if off < 0 || off >= p.len() {} else {
        let b = p[off];
        if b & 0xc0 == 0xc0 {} else if b > 63 {} else if off + b + 1 > p.len() {} else if nlen + b + 1 > 255 {} else if b == 0 {} else { lemma_plain_bounds(p, off + b + 1, nlen + b + 1); }
    }
}
pub proof fn lemma_plain_len(p: Seq<u8>, off: int, nlen: int)
    ensures plain_walk(p, off, nlen) matches Some(e) ==> e - off + nlen <= 255
    decreases p.len() - off
{
    if off < 0 || off >= p.len() {} else {
        let b = p[off];
        if b & 0xc0 == 0xc0 {} else if b > 63 {} else if off + b + 1 > p.len() {} else if nlen + b + 1 > 255 {} else if b == 0 {} else { lemma_plain_len(p, off + b + 1, nlen + b + 1); }
    }
}

// EDNS options tile [a, b) exactly; result = number of options
pub open spec fn opts(p: Seq<u8>, a: int, b: int) -> Option<int>
    decreases b - a
{
    if a >= b { if a == b { Some(0int) } else { None } }
    else if a + 4 > b { None }
    else {
        let l = be16(p, a + 2) as int;
        if a + 4 + l > b { None }
        else { match opts(p, a + 4 + l, b) { Some(n) => Some(n + 1), None => None } }
    }
}
pub proof fn lemma_opts_count(p: Seq<u8>, a: int, b: int)
    ensures opts(p, a, b) matches Some(n) ==> 0 <= n && 4 * n <= b - a
    decreases b - a
{
    if a >= b {} else if a + 4 > b {} else { let l = be16(p, a + 2) as int; if a + 4 + l > b {} else { lemma_opts_count(p, a + 4 + l, b); } }
}

pub enum SecT { Answer, NameServers, Additional }

// one resource record starting at off.  Result: (end offset, this record is the OPT)
pub open spec fn rr_spec(p: Seq<u8>, off: int, sec: SecT, seen: bool) -> Option<(int, bool)> {
    match name_end(p, off) {
        None => None,
        Some(ne) =>
            if ne + 10 > p.len() { None }
            else {
                let t = be16(p, ne);
                let l = be16(p, ne + 8) as int;
                let d = ne + 10;
                if t == 41 {                                                       // OPT: additional only, root owner, at most one, options tile
                    if !(sec is Additional) || ne - off != 1 || seen { None }
                    else if d + l > p.len() { None }
                    else if opts(p, d, d + l).is_none() { None }
                    else { Some((d + l, true)) }
                } else if t == 2 || t == 5 || t == 12 {                            // NS CNAME PTR: filled exactly by one name
                    if name_end(p, d) == Some(d + l) { Some((d + l, false)) } else { None }
                } else if t == 15 {                                                // MX: 2 + name
                    if l > 2 && name_end(p, d + 2) == Some(d + l) { Some((d + l, false)) } else { None }
                } else if t == 6 {                                                 // SOA: name name 20
                    match name_end(p, d) { None => None, Some(n1) => match name_end(p, n1) { None => None, Some(n2) =>
                        if l > 21 && n2 + 20 == d + l && d + l <= p.len() { Some((d + l, false)) } else { None } } }
                } else if t == 39 {                                                // DNAME: pointer-free, any bytes
                    if plain_end(p, d) == Some(d + l) { Some((d + l, false)) } else { None }
                } else if t == 1 {
                    if l == 4 && d + l <= p.len() { Some((d + l, false)) } else { None }
                } else if t == 28 {
                    if l == 16 && d + l <= p.len() { Some((d + l, false)) } else { None }
                } else {
                    if d + l <= p.len() { Some((d + l, false)) } else { None }
                }
            }
    }
}

// n records starting at off; opt = offset right after the OPT owner name, if an OPT was met
pub open spec fn rrs(p: Seq<u8>, off: int, n: int, sec: SecT, opt: Option<int>) -> Option<(int, Option<int>)>
    decreases n
{
    if n <= 0 { Some((off, opt)) }
    else { match rr_spec(p, off, sec, opt.is_some()) {
        None => None,
        Some((e, is_opt)) => rrs(p, e, n - 1, sec, if is_opt { Some(off + 1) } else { opt }),
    } }
}

pub struct Summary {
    pub oq: Option<int>, pub oa: Option<int>, pub ons: Option<int>, pub oar: Option<int>,
    pub opt: Option<int>,   // offset right after the OPT owner name
}

pub open spec fn qr(p: Seq<u8>) -> bool { be16(p, 2) & 0x8000 == 0x8000 }

// C02: "Parsing succeeds if and only if ..."
pub open spec fn parse_spec(p: Seq<u8>) -> Option<Summary> {
    if p.len() < 12 { None }                                                       // 12-byte header
    else if be16(p, 4) != 1 { None }                                               // exactly one question
    else { match name_end(p, 12) { None => None, Some(qne) =>
        if qne + 4 > p.len() { None }
        else if be16(p, qne + 2) != 1 { None }                                     // of class IN
        else {
            let o1 = qne + 4; let an = be16(p, 6) as int; let ns = be16(p, 8) as int; let ar = be16(p, 10) as int;
            if !qr(p) && (an > 0 || ns > 0) { None }                               // answer/authority only in responses
            else { match rrs(p, o1, an, SecT::Answer, None) { None => None, Some((o2, s2)) =>
                match rrs(p, o2, ns, SecT::NameServers, s2) { None => None, Some((o3, s3)) =>
                match rrs(p, o3, ar, SecT::Additional, s3) { None => None, Some((o4, s4)) =>
                    if o4 != p.len() { None } else {                               // nothing left over
                        Some(Summary { oq: Some(12int), oa: if an > 0 { Some(o1) } else { None }, ons: if ns > 0 { Some(o2) } else { None },
                                       oar: if ar > 0 { Some(o3) } else { None }, opt: s4 }) } } } } }
        } } }
}
pub open spec fn wf_packet(p: Seq<u8>) -> bool { parse_spec(p).is_some() }
