// ===== spec/ds.rs: views of the validator object (DNSSector) and of its result =====
impl DNSSector {
    pub open spec fn inv(&self) -> bool { self.offset <= self.packet.len() }
    pub open spec fn einv(&self) -> bool {
        self.inv() && (self.edns_end matches Some(e) ==> self.offset <= e && e <= self.packet.len())
    }
    // bytes left in the option area
    pub open spec fn erem(&self) -> int { match self.edns_end { None => 0int, Some(e) => e - self.offset } }
    // everything but the cursor is unchanged
    pub open spec fn frame(&self, o: &DNSSector) -> bool {
        self.packet == o.packet && self.edns_start == o.edns_start && self.edns_end == o.edns_end && self.edns_count == o.edns_count
        && self.ext_rcode == o.ext_rcode && self.edns_version == o.edns_version && self.ext_flags == o.ext_flags && self.max_payload == o.max_payload
    }
}
pub open spec fn sec_t(s: Section) -> SecT {
    match s { Section::Answer => SecT::Answer, Section::NameServers => SecT::NameServers, _ => SecT::Additional }
}
// the EDNS fields of the validator equal the decode of the OPT record whose owner name ends at `o` (None: no OPT seen)
pub open spec fn edns_state(d: &DNSSector, p: Seq<u8>, opt: Option<int>) -> bool {
    match opt {
        None => d.edns_start.is_none() && d.edns_end.is_none() && d.edns_count == 0 && d.ext_rcode.is_none()
                && d.edns_version.is_none() && d.ext_flags.is_none() && d.max_payload == 512,
        Some(o) => {
            let dd = o + 10; let l = be16(p, o + 8) as int;
            d.edns_start == Some(dd as usize) && d.edns_end == Some((dd + l) as usize) && opts(p, dd, dd + l) == Some(d.edns_count as int)
            && d.ext_rcode == Some(p[o + 4]) && d.edns_version == Some(p[o + 5]) && d.max_payload == be16(p, o + 2) as usize
            && d.ext_flags == Some(be16(p, o + 6))
        }
    }
}
pub open spec fn optu(x: Option<usize>) -> Option<int> { match x { Some(v) => Some(v as int), None => None } }
// C04 (parse part): the summary fields of the returned object equal the spec decode
pub open spec fn pp_matches(pp: ParsedPacket, p: Seq<u8>, s: Summary) -> bool {
    optu(pp.offset_question) == s.oq && optu(pp.offset_answers) == s.oa && optu(pp.offset_nameservers) == s.ons
    && optu(pp.offset_additional) == s.oar && pp.maybe_compressed && pp.cached.is_none()
    && (match s.opt {
        None => pp.offset_edns.is_none() && pp.edns_count == 0 && pp.ext_rcode.is_none() && pp.edns_version.is_none()
                && pp.ext_flags.is_none() && pp.max_payload == 512,
        Some(o) => {
            let dd = o + 10; let l = be16(p, o + 8) as int;
            pp.offset_edns == Some(dd as usize) && opts(p, dd, dd + l) == Some(pp.edns_count as int)
            && pp.ext_rcode == Some(p[o + 4]) && pp.edns_version == Some(p[o + 5]) && pp.max_payload == be16(p, o + 2) as usize
            && pp.ext_flags == Some(be16(p, o + 6))
        }
    })
}
