// ===== spec/pfedns.rs: decompression copies the OPT record verbatim, so the EDNS summary of the object also describes the decompressed bytes =====
// (this mechanises what used to be the assumed link `unc_keeps_edns`)
pub proof fn lemma_opt_at_split_rec(p: Seq<u8>, s: int, n: int, k: int)
    requires recs_all(p, s, n), 0 <= k <= n
    ensures opt_at(p, s, n) == (if opt_at(p, s, k).is_some() { opt_at(p, s, k) } else { opt_at(p, rec_start(p, s, k), n - k) }),
    decreases k
{
    if k > 0 { if !is_opt(p, s) { lemma_opt_at_split_rec(p, rec_end(p, s), n - 1, k - 1); } }
}
// the OPT record of the input, re-encoded at position b of u: same option list, same extended rcode / version / flags
pub proof fn lemma_un_rr_opt_data(p: Seq<u8>, off: int, u: Seq<u8>, b: int)
    requires rec_ok(p, off), is_opt(p, off), 0 <= b, b + un_rr(p, off).len() <= u.len(),
        forall|i: int| 0 <= i < un_rr(p, off).len() ==> u[b + i] == un_rr(p, off)[i],
    ensures opt_data(u, b + 1) == opt_data(p, rec_ne(p, off)), pcs_end(u, b) == Some(b + 1),
{
    hide(walk); hide(exp); hide(rd_ok); hide(pcs_walk); hide(pf_rr);
    let ne = rec_ne(p, off); let l = be16(p, ne + 8) as int; let d = ne + 10; let w = un_rr(p, off); let rd = un_rd(p, ne);
    lemma_rec_bounds(p, off);
    lemma_un_rr_pf(p, off, u, b);
    lemma_root_name(p, off);
    lemma_name_exp_valid(p, off);
    let nm = name_exp(p, off);
    assert(pcs_end(u, b) == Some(b + nm.len()));
    assert(nm.len() == 1) by { reveal(pf_rr); }
    assert(rd =~= p.subrange(d, d + l));
    assert forall|i: int| 0 <= i < 8 implies #[trigger] u[b + 1 + i] == p[ne + i] by { assert(w[1 + i] == p.subrange(ne, ne + 8)[i]); }
    assert(u[b + 1 + 4] == p[ne + 4] && u[b + 1 + 5] == p[ne + 5] && u[b + 1 + 6] == p[ne + 6] && u[b + 1 + 7] == p[ne + 7]);
    let l2 = rd.len() as u16;
    assert(u[b + 9] == hi8(l2) && u[b + 10] == lo8(l2)) by { assert(w[9] == b16(l2)[0]); assert(w[10] == b16(l2)[1]); }
    lemma_be16_compose(l2);
    assert(be16(u, b + 1 + 8) == l2 && l2 == l);
    assert forall|i: int| d <= i < d + l implies p[i] == u[i - d + (b + 11)] by { assert(w[11 + (i - d)] == rd[i - d]); assert(u[b + (11 + (i - d))] == w[11 + (i - d)]); }
    assert(opts(p, d, d + l).is_some()) by { reveal(rd_ok); }
    lemma_opts_shift(p, d, d + l, u, b + 11);
}
// u holds un_rrs(p, s, n) at b: the OPT record of the run, if any, is found in u with the same data
pub proof fn lemma_opt_at_un(p: Seq<u8>, s: int, n: int, u: Seq<u8>, b: int)
    requires recs_all(p, s, n), 0 <= s <= p.len(), n >= 0, 0 <= b, b + un_rrs(p, s, n).len() <= u.len(), n_opt(p, s, n) <= 1,
        forall|i: int| 0 <= i < un_rrs(p, s, n).len() ==> u[b + i] == un_rrs(p, s, n)[i],
    ensures opt_at(u, b, n).is_some() == opt_at(p, s, n).is_some(),
        opt_at(p, s, n) matches Some(o) ==> opt_data(u, opt_at(u, b, n).unwrap()) == opt_data(p, o),
    decreases n
{
    hide(walk); hide(exp); hide(rd_ok); hide(pcs_walk); hide(pf_rr); hide(un_rr); hide(un_rd); hide(opts);
    if n > 0 {
        let pre = un_rrs(p, s, n - 1); let o = rec_start(p, s, n - 1); let w = un_rr(p, o);
        lemma_recs_prefix(p, s, n, n - 1);
        lemma_rec_start_bounds(p, s, n, n - 1);
        lemma_n_opt_append(p, s, n - 1);
        lemma_n_opt_nonneg(p, s, n - 1);
        assert(un_rrs(p, s, n) == pre + w);
        assert forall|i: int| 0 <= i < pre.len() implies u[b + i] == pre[i] by { assert(un_rrs(p, s, n)[i] == pre[i]); }
        lemma_opt_at_un(p, s, n - 1, u, b);
        lemma_un_rrs_pf(p, s, n, u, b);
        let b2 = b + pre.len();
        assert forall|i: int| 0 <= i < w.len() implies u[b2 + i] == w[i] by { assert(un_rrs(p, s, n)[pre.len() + i] == w[i]); assert(u[b + (pre.len() + i)] == un_rrs(p, s, n)[pre.len() + i]); }
        lemma_opt_at_split_rec(p, s, n, n - 1);
        lemma_opt_at_split(u, b, n, n - 1);
        assert(pf_rrs_end(u, b, n - 1) == b2);
        reveal_with_fuel(opt_at, 2);
        lemma_un_rr_pf(p, o, u, b2);
        lemma_pf_rec(u, b2);
        if is_opt(p, o) { lemma_un_rr_opt_data(p, o, u, b2); }
    }
}
// C08: the EDNS summary of a well-formed object describes the decompressed bytes too
pub proof fn lemma_unc_keeps_edns(pp: ParsedPacket)
    requires pp.wf()
    ensures unc_keeps_edns(pp)
{
    hide(pf_rr); hide(pf_packet); hide(walk); hide(exp); hide(rd_ok); hide(opts); hide(un_rr); hide(un_rd); hide(pcs_walk);
    let p = pp.bytes(); let u = uncompress_spec(p);
    let sa = sec_start(p, Section::Answer); let ca = sec_count(p, Section::Answer);
    let sn = sec_start(p, Section::NameServers); let cn = sec_count(p, Section::NameServers);
    let sr = sec_start(p, Section::Additional); let cr = sec_count(p, Section::Additional);
    let h = p.subrange(0, 12); let q = un_q(p); let ra = un_rrs(p, sa, ca); let rn = un_rrs(p, sn, cn); let rr_ = un_rrs(p, sr, cr);
    lemma_wf_bytes_facts(p);
    lemma_un_pf_packet(p);
    assert(u == h + q + ra + rn + rr_);
    assert forall|i: int| 0 <= i < 12 implies u[i] == p[i] by { assert(h[i] == p[i]); }
    assert(be16(u, 4) == be16(p, 4) && be16(u, 6) == be16(p, 6) && be16(u, 8) == be16(p, 8) && be16(u, 10) == be16(p, 10));
    let b1: int = 12 + q.len() as int; let b2: int = b1 + ra.len(); let b3: int = b2 + rn.len();
    assert forall|i: int| 0 <= i < ra.len() implies u[b1 + i] == ra[i] by { }
    lemma_un_rrs_pf(p, sa, ca, u, b1);
    assert forall|i: int| 0 <= i < rn.len() implies u[b2 + i] == rn[i] by { }
    lemma_un_rrs_pf(p, sn, cn, u, b2);
    assert forall|i: int| 0 <= i < rr_.len() implies u[b3 + i] == rr_[i] by { }
    lemma_opt_at_un(p, sr, cr, u, b3);
    lemma_pf_wf_bytes(u);
    assert(sec_start(u, Section::Additional) == b3);
}
