// ===== spec/pfmut.rs: editing a pointer-free packet at a record boundary keeps it a pointer-free packet (C08) =====
// ---- runs of pointer-free records: split, join
pub proof fn lemma_pf_rrs_split(p: Seq<u8>, s: int, n: int, k: int)
    requires pf_rrs(p, s, n), 0 <= k <= n
    ensures pf_rrs(p, s, k), pf_rrs(p, pf_rrs_end(p, s, k), n - k),
        pf_rrs_end(p, pf_rrs_end(p, s, k), n - k) == pf_rrs_end(p, s, n),
        pf_n_opt(p, s, n) == pf_n_opt(p, s, k) + pf_n_opt(p, pf_rrs_end(p, s, k), n - k),
    decreases k
{ if k > 0 { lemma_pf_rrs_split(p, pf_end(p, s), n - 1, k - 1); } }
pub proof fn lemma_pf_rrs_join(p: Seq<u8>, s: int, k: int, m: int)
    requires k >= 0, m >= 0, pf_rrs(p, s, k), pf_rrs(p, pf_rrs_end(p, s, k), m)
    ensures pf_rrs(p, s, k + m), pf_rrs_end(p, s, k + m) == pf_rrs_end(p, pf_rrs_end(p, s, k), m),
        pf_n_opt(p, s, k + m) == pf_n_opt(p, s, k) + pf_n_opt(p, pf_rrs_end(p, s, k), m),
    decreases k
{ if k > 0 { lemma_pf_rrs_join(p, pf_end(p, s), k - 1, m); } }

pub proof fn lemma_pf_rrs_one(p: Seq<u8>, a: int)
    ensures pf_rrs(p, a, 1) == pf_rr(p, a), pf_rrs_end(p, a, 1) == pf_end(p, a), pf_n_opt(p, a, 1) == (if pf_is_opt(p, a) { 1int } else { 0int }),
        pf_rrs(p, a, 0), pf_rrs_end(p, a, 0) == a, pf_n_opt(p, a, 0) == 0,
{ hide(pf_rr); reveal_with_fuel(pf_rrs, 2); reveal_with_fuel(pf_rrs_end, 2); reveal_with_fuel(pf_n_opt, 2); }

// ---- one run: records k .. k+rm-1 (rm <= 1) are replaced by m <= 1 records occupying wl bytes; v is the edited buffer
pub open spec fn run_edit_pre(u: Seq<u8>, st: int, n: int, k: int, rm: int, v: Seq<u8>, wl: int, m: int) -> bool {
    let a = pf_rrs_end(u, st, k); let b = pf_rrs_end(u, st, k + rm); let e = pf_rrs_end(u, st, n); let d = wl - (b - a);
    pf_rrs(u, st, n) && 0 <= st <= u.len() && 0 <= k && 0 <= rm <= 1 && k + rm <= n && 0 <= m <= 1
    && wl >= 0 && (m == 0 ==> wl == 0) && (m == 1 ==> pf_rr(v, a) && pf_end(v, a) == a + wl)
    && e + d <= v.len()
    && (forall|i: int| st <= i < a ==> v[i] == u[i])
    && (forall|i: int| b <= i < e ==> #[trigger] v[i + d] == u[i])
}
pub proof fn lemma_run_edit(u: Seq<u8>, st: int, n: int, k: int, rm: int, v: Seq<u8>, wl: int, m: int)
    requires run_edit_pre(u, st, n, k, rm, v, wl, m)
    ensures ({ let a = pf_rrs_end(u, st, k); let b = pf_rrs_end(u, st, k + rm); let e = pf_rrs_end(u, st, n); let d = wl - (b - a);
        st <= a <= b <= e <= u.len()
        && pf_rrs(v, st, n - rm + m) && pf_rrs_end(v, st, n - rm + m) == e + d
        && pf_n_opt(v, st, n - rm + m) == pf_n_opt(u, st, n) - (if rm == 1 && pf_is_opt(u, a) { 1int } else { 0int }) + (if m == 1 && pf_is_opt(v, a) { 1int } else { 0int })
        && pf_rrs(v, st, k) && pf_rrs_end(v, st, k) == a && pf_n_opt(v, st, k) == pf_n_opt(u, st, k)
        && pf_rrs(v, a + wl, n - k - rm) && pf_rrs_end(v, a + wl, n - k - rm) == e + d && pf_n_opt(v, a + wl, n - k - rm) == pf_n_opt(u, b, n - k - rm)
        && (rm == 1 ==> pf_rr(u, a) && b == pf_end(u, a))
        && pf_n_opt(u, st, n) == pf_n_opt(u, st, k) + (if rm == 1 && pf_is_opt(u, a) { 1int } else { 0int }) + pf_n_opt(u, b, n - k - rm) }),
{
    hide(pf_rr); hide(pf_rrs); hide(pf_rrs_end); hide(pf_n_opt);
    let a = pf_rrs_end(u, st, k); let b = pf_rrs_end(u, st, k + rm); let e = pf_rrs_end(u, st, n); let d = wl - (b - a);
    lemma_pf_rrs_split(u, st, n, k);
    lemma_pf_rrs_split(u, st, n, k + rm);
    lemma_pf_rrs_split(u, st, k + rm, k);
    lemma_pf_rrs_bounds(u, st, k);
    lemma_pf_rrs_bounds(u, a, rm);
    lemma_pf_rrs_bounds(u, b, n - k - rm);
    lemma_pf_rrs_one(u, a);
    // prefix: same bytes, same place
    assert forall|i: int| st <= i < pf_rrs_end(u, st, k) implies u[i] == v[i - st + st] by { }
    lemma_pf_rrs_shift(u, st, k, v, st);
    // suffix: same bytes, moved by d
    assert forall|i: int| b <= i < pf_rrs_end(u, b, n - k - rm) implies u[i] == v[i - b + (b + d)] by { assert(v[i + d] == u[i]); }
    lemma_pf_rrs_shift(u, b, n - k - rm, v, b + d);
    if m == 1 {
        lemma_pf_rrs_one(v, a);
        assert(pf_rrs(v, a, 1) && pf_rrs_end(v, a, 1) == a + wl);
        lemma_pf_rrs_join(v, a, 1, n - k - rm);
        lemma_pf_rrs_join(v, st, k, 1 + (n - k - rm));
    } else {
        lemma_pf_rrs_join(v, st, k, n - k - rm);
    }
}

// ---- the whole packet: the same edit inside record section si (1 answer, 2 authority, 3 additional), with that section's count rewritten
pub open spec fn pf_e1(v: Seq<u8>) -> int { pf_rrs_end(v, pf_q_end(v), be16(v, 6) as int) }
pub open spec fn pf_e2(v: Seq<u8>) -> int { pf_rrs_end(v, pf_e1(v), be16(v, 8) as int) }
pub open spec fn sec_st(v: Seq<u8>, si: int) -> int { if si == 1 { pf_q_end(v) } else if si == 2 { pf_e1(v) } else { pf_e2(v) } }
pub open spec fn sec_n(v: Seq<u8>, si: int) -> int { be16(v, 4 + 2 * si) as int }
pub open spec fn pkt_edit_pre(u: Seq<u8>, v: Seq<u8>, si: int, k: int, rm: int, wl: int, m: int) -> bool {
    let st = sec_st(u, si); let n = sec_n(u, si); let a = pf_rrs_end(u, st, k); let b = pf_rrs_end(u, st, k + rm); let d = wl - (b - a);
    let cp = 4 + 2 * si; let c = n - rm + m;
    pf_packet(u) && 1 <= si <= 3 && 0 <= k && 0 <= rm <= 1 && k + rm <= n && 0 <= m <= 1 && c <= 0xffff && wl >= 0 && (m == 0 ==> wl == 0)
    && v.len() == u.len() + d
    && (forall|i: int| 0 <= i < a && i != cp && i != cp + 1 ==> v[i] == u[i])
    && be16(v, cp) == c
    && (m == 1 ==> pf_rr(v, a) && pf_end(v, a) == a + wl && !pf_is_opt(v, a))
    && (forall|i: int| b <= i < u.len() ==> #[trigger] v[i + d] == u[i])
}
pub proof fn lemma_pkt_edit(u: Seq<u8>, v: Seq<u8>, si: int, k: int, rm: int, wl: int, m: int)
    requires pkt_edit_pre(u, v, si, k, rm, wl, m)
    ensures ({ let st = sec_st(u, si); let n = sec_n(u, si); let a = pf_rrs_end(u, st, k); let b = pf_rrs_end(u, st, k + rm); let d = wl - (b - a);
        let e = pf_rrs_end(u, st, n);
        pf_packet(v) && pf_q_end(v) == pf_q_end(u) && be16(v, 4) == be16(u, 4)
        && sec_n(v, 1) == (if si == 1 { n - rm + m } else { sec_n(u, 1) }) && sec_n(v, 2) == (if si == 2 { n - rm + m } else { sec_n(u, 2) })
        && sec_n(v, 3) == (if si == 3 { n - rm + m } else { sec_n(u, 3) })
        && pf_e1(v) == pf_e1(u) + (if si <= 1 { d } else { 0 }) && pf_e2(v) == pf_e2(u) + (if si <= 2 { d } else { 0 })
        && 12 <= pf_q_end(u) <= pf_e1(u) <= pf_e2(u) <= u.len() && st <= a <= b <= e <= u.len()
        && sec_st(v, si) == st
        && pf_rrs(v, st, k) && pf_rrs_end(v, st, k) == a && pf_rrs(v, a + wl, n - k - rm) && pf_rrs_end(v, a + wl, n - k - rm) == e + d
        && (rm == 1 ==> pf_rr(u, a) && b == pf_end(u, a))
        && pf_n_opt(v, st, k) == pf_n_opt(u, st, k) && pf_n_opt(v, a + wl, n - k - rm) == pf_n_opt(u, b, n - k - rm)
        && pf_n_opt(u, st, n) == pf_n_opt(u, st, k) + (if rm == 1 && pf_is_opt(u, a) { 1int } else { 0int }) + pf_n_opt(u, b, n - k - rm) }),
{
    hide(pf_rr); hide(pf_rrs); hide(pf_rrs_end); hide(pf_n_opt);
    let st = sec_st(u, si); let n = sec_n(u, si); let a = pf_rrs_end(u, st, k); let b = pf_rrs_end(u, st, k + rm); let d = wl - (b - a);
    let o1 = pf_q_end(u); let an = be16(u, 6) as int; let ns = be16(u, 8) as int; let ar = be16(u, 10) as int;
    let e1 = pf_e1(u); let e2 = pf_e2(u); let cp = 4 + 2 * si;
    if be16(u, 4) == 1 { lemma_pcs_bounds(u, 12, 0); }
    lemma_pf_rrs_bounds(u, o1, an); lemma_pf_rrs_bounds(u, e1, ns); lemma_pf_rrs_bounds(u, e2, ar);
    lemma_pf_rrs_split(u, st, n, k); lemma_pf_rrs_bounds(u, st, k);
    lemma_pf_rrs_split(u, st, n, k + rm); lemma_pf_rrs_bounds(u, st, k + rm); lemma_pf_rrs_bounds(u, b, n - k - rm);
    lemma_pf_rrs_split(u, st, k + rm, k); lemma_pf_rrs_bounds(u, a, rm);
    assert(12 <= o1 <= st <= a <= b <= u.len());
    assert(a <= v.len());
    // header words other than the rewritten count
    assert(be16(v, 4) == be16(u, 4)) by { assert(v[4] == u[4] && v[5] == u[5]); }
    if si != 1 { assert(be16(v, 6) == be16(u, 6)) by { assert(v[6] == u[6] && v[7] == u[7]); } }
    if si != 2 { assert(be16(v, 8) == be16(u, 8)) by { assert(v[8] == u[8] && v[9] == u[9]); } }
    if si != 3 { assert(be16(v, 10) == be16(u, 10)) by { assert(v[10] == u[10] && v[11] == u[11]); } }
    // question
    if be16(u, 4) == 1 {
        let qe = pcs_end(u, 12).unwrap();
        assert forall|i: int| 12 <= i < qe implies u[i] == v[i - 12 + 12] by { }
        lemma_pcs_shift(u, 12, v, 12, 0);
    }
    assert(pf_q_end(v) == o1);
    // the edited section
    assert(run_edit_pre(u, st, n, k, rm, v, wl, m)) by {
        lemma_pf_rrs_split(u, st, n, k + rm); lemma_pf_rrs_bounds(u, st, k + rm); lemma_pf_rrs_bounds(u, b, n - k - rm);
    }
    lemma_run_edit(u, st, n, k, rm, v, wl, m);
    let e = pf_rrs_end(u, st, n);
    if si == 1 {
        // authority and additional move by d
        assert forall|i: int| e1 <= i < pf_rrs_end(u, e1, ns) implies u[i] == v[i - e1 + (e1 + d)] by { assert(v[i + d] == u[i]); }
        lemma_pf_rrs_shift(u, e1, ns, v, e1 + d);
        assert forall|i: int| e2 <= i < pf_rrs_end(u, e2, ar) implies u[i] == v[i - e2 + (e2 + d)] by { assert(v[i + d] == u[i]); }
        lemma_pf_rrs_shift(u, e2, ar, v, e2 + d);
    } else if si == 2 {
        assert forall|i: int| o1 <= i < pf_rrs_end(u, o1, an) implies u[i] == v[i - o1 + o1] by { }
        lemma_pf_rrs_shift(u, o1, an, v, o1);
        assert forall|i: int| e2 <= i < pf_rrs_end(u, e2, ar) implies u[i] == v[i - e2 + (e2 + d)] by { assert(v[i + d] == u[i]); }
        lemma_pf_rrs_shift(u, e2, ar, v, e2 + d);
    } else {
        assert forall|i: int| o1 <= i < pf_rrs_end(u, o1, an) implies u[i] == v[i - o1 + o1] by { }
        lemma_pf_rrs_shift(u, o1, an, v, o1);
        assert forall|i: int| e1 <= i < pf_rrs_end(u, e1, ns) implies u[i] == v[i - e1 + e1] by { }
        lemma_pf_rrs_shift(u, e1, ns, v, e1);
    }
    reveal(pf_packet);
}

// ---- where the OPT record of a run sits (reader-level opt_at) under shifting and splitting
pub open spec fn shift_o(o: Option<int>, d: int) -> Option<int> { match o { Some(x) => Some(x + d), None => None } }
// the decoded EDNS data (option count, extended rcode, version, flags) at position o of p
pub open spec fn opt_data(p: Seq<u8>, o: int) -> (Option<int>, u8, u8, u16) { (opts(p, o + 10, o + 10 + be16(p, o + 8)), p[o + 4], p[o + 5], be16(p, o + 6)) }
pub proof fn lemma_opt_at_shift(p1: Seq<u8>, a: int, n: int, p2: Seq<u8>, b: int)
    requires pf_rrs(p1, a, n), 0 <= a <= p1.len(), b >= 0, b + (pf_rrs_end(p1, a, n) - a) <= p2.len(),
             forall|i: int| a <= i < pf_rrs_end(p1, a, n) ==> p1[i] == p2[i - a + b],
    ensures opt_at(p2, b, n) == shift_o(opt_at(p1, a, n), b - a),
        opt_at(p1, a, n) matches Some(o) ==> a < o && o + 10 <= pf_rrs_end(p1, a, n) && opt_data(p2, o - a + b) == opt_data(p1, o),
        opt_at(p1, a, n).is_some() <==> pf_n_opt(p1, a, n) >= 1,
    decreases n
{
    if n > 0 {
        let sh = b - a;
        lemma_pf_rec(p1, a);
        lemma_pf_rr_spec(p1, a, SecT::Answer, false);
        lemma_pf_rrs_bounds(p1, pf_end(p1, a), n - 1);
        lemma_pf_rr_shift(p1, a, p2, b);
        lemma_pf_rec(p2, b);
        lemma_pcs_shift(p1, a, p2, b, 0);
        if is_opt(p1, a) {
            let o = rec_ne(p1, a); let l = be16(p1, o + 8) as int;
            assert(forall|i: int| o <= i < o + 10 ==> p1[i] == p2[i + sh]);
            assert(be16(p2, o + sh + 8) == be16(p1, o + 8)) by { assert(p1[o + 8] == p2[o + 8 + sh] && p1[o + 9] == p2[o + 9 + sh]); }
            assert(be16(p2, o + sh + 6) == be16(p1, o + 6)) by { assert(p1[o + 6] == p2[o + 6 + sh] && p1[o + 7] == p2[o + 7 + sh]); }
            assert(p2[o + sh + 4] == p1[o + 4] && p2[o + sh + 5] == p1[o + 5]);
            assert forall|i: int| o + 10 <= i < o + 10 + l implies p1[i] == p2[i - (o + 10) + (o + 10 + sh)] by { }
            lemma_opts_shift(p1, o + 10, o + 10 + l, p2, o + 10 + sh);
        } else {
            lemma_opt_at_shift(p1, pf_end(p1, a), n - 1, p2, pf_end(p1, a) + sh);
        }
    }
}
pub proof fn lemma_opt_at_split(p: Seq<u8>, s: int, n: int, k: int)
    requires pf_rrs(p, s, n), 0 <= k <= n, 0 <= s <= p.len()
    ensures opt_at(p, s, n) == (if opt_at(p, s, k).is_some() { opt_at(p, s, k) } else { opt_at(p, pf_rrs_end(p, s, k), n - k) }),
    decreases k
{
    if k > 0 {
        lemma_pf_rec(p, s);
        lemma_pf_rr_spec(p, s, SecT::Answer, false);
        if !is_opt(p, s) { lemma_opt_at_split(p, pf_end(p, s), n - 1, k - 1); }
    }
}

// ---- the OPT record of the additional section after such an edit
pub open spec fn moved_o(o: Option<int>, a: int, d: int) -> Option<int> { match o { Some(x) => Some(if a < x + 10 { x + d } else { x }), None => None } }
pub proof fn lemma_pf_packet_facts(u: Seq<u8>)
    requires pf_packet(u)
    ensures 12 <= pf_q_end(u) <= pf_e1(u) <= pf_e2(u) <= u.len(),
        pf_rrs(u, pf_q_end(u), be16(u, 6) as int), pf_rrs(u, pf_e1(u), be16(u, 8) as int), pf_rrs(u, pf_e2(u), be16(u, 10) as int),
        pf_rrs_end(u, pf_e2(u), be16(u, 10) as int) == u.len(),
        pf_n_opt(u, pf_q_end(u), be16(u, 6) as int) == 0, pf_n_opt(u, pf_e1(u), be16(u, 8) as int) == 0, 0 <= pf_n_opt(u, pf_e2(u), be16(u, 10) as int) <= 1,
{
    if be16(u, 4) == 1 { lemma_pcs_bounds(u, 12, 0); }
    lemma_pf_rrs_bounds(u, pf_q_end(u), be16(u, 6) as int); lemma_pf_rrs_bounds(u, pf_e1(u), be16(u, 8) as int); lemma_pf_rrs_bounds(u, pf_e2(u), be16(u, 10) as int);
}
pub proof fn lemma_edit_edns_other(u: Seq<u8>, v: Seq<u8>, si: int, k: int, rm: int, wl: int, m: int)
    requires pkt_edit_pre(u, v, si, k, rm, wl, m), si < 3
    ensures ({ let st = sec_st(u, si); let a = pf_rrs_end(u, st, k); let b = pf_rrs_end(u, st, k + rm); let d = wl - (b - a);
        let ou = opt_at(u, pf_e2(u), be16(u, 10) as int); let ov = opt_at(v, pf_e2(v), be16(v, 10) as int);
        !(rm == 1 && pf_is_opt(u, a)) && ov == moved_o(ou, a, d)
        && (ou matches Some(o) ==> opt_data(v, ov.unwrap()) == opt_data(u, o) && 0 <= ov.unwrap() && ov.unwrap() + 10 <= v.len() && 0 <= o && o + 10 <= u.len()) }),
{
    hide(pf_rr); hide(pf_rrs); hide(pf_rrs_end); hide(pf_n_opt); hide(pf_packet); hide(opts); hide(opt_at);
    let st = sec_st(u, si); let n = sec_n(u, si); let a = pf_rrs_end(u, st, k); let b = pf_rrs_end(u, st, k + rm); let d = wl - (b - a);
    let e2 = pf_e2(u); let ar = be16(u, 10) as int;
    lemma_pkt_edit(u, v, si, k, rm, wl, m);
    lemma_pf_packet_facts(u);
    lemma_pf_rrs_split(u, st, n, k); lemma_pf_rrs_split(u, st, n, k + rm); lemma_pf_rrs_bounds(u, st, k); lemma_pf_rrs_bounds(u, b, n - k - rm);
    assert forall|i: int| e2 <= i < pf_rrs_end(u, e2, ar) implies u[i] == v[i - e2 + (e2 + d)] by { assert(v[i + d] == u[i]); }
    lemma_opt_at_shift(u, e2, ar, v, e2 + d);
}
// a run seen as prefix | at most one record | suffix
pub proof fn lemma_opt_at_3(p: Seq<u8>, s: int, n: int, k: int, r: int)
    requires pf_rrs(p, s, n), 0 <= s <= p.len(), 0 <= k, 0 <= r <= 1, k + r <= n
    ensures ({ let a = pf_rrs_end(p, s, k); let b = pf_rrs_end(p, s, k + r);
        s <= a <= b <= pf_rrs_end(p, s, n) <= p.len()
        && pf_rrs(p, s, k) && pf_rrs(p, b, n - k - r) && pf_rrs_end(p, b, n - k - r) == pf_rrs_end(p, s, n)
        && (r == 1 ==> pf_rr(p, a) && b == pf_end(p, a)) && (r == 0 ==> b == a)
        && pf_n_opt(p, s, n) == pf_n_opt(p, s, k) + (if r == 1 && pf_is_opt(p, a) { 1int } else { 0int }) + pf_n_opt(p, b, n - k - r)
        && pf_n_opt(p, s, k) >= 0 && pf_n_opt(p, b, n - k - r) >= 0
        && opt_at(p, s, n) == (if opt_at(p, s, k).is_some() { opt_at(p, s, k) } else if r == 1 && pf_is_opt(p, a) { Some(pcs_end(p, a).unwrap()) } else { opt_at(p, b, n - k - r) }) }),
{
    hide(pf_rr); hide(pf_rrs); hide(pf_rrs_end); hide(pf_n_opt);
    let a = pf_rrs_end(p, s, k); let b = pf_rrs_end(p, s, k + r);
    lemma_pf_rrs_split(p, s, n, k); lemma_pf_rrs_split(p, s, n, k + r); lemma_pf_rrs_split(p, s, k + r, k);
    lemma_pf_rrs_bounds(p, s, k); lemma_pf_rrs_bounds(p, a, r); lemma_pf_rrs_bounds(p, b, n - k - r);
    lemma_pf_rrs_one(p, a);
    lemma_opt_at_split(p, s, n, k);
    lemma_pf_rrs_split(p, a, n - k, r);
    lemma_opt_at_split(p, a, n - k, r);
    reveal_with_fuel(opt_at, 2);
    if r == 1 { lemma_pf_rec(p, a); }
}
pub proof fn lemma_edit_edns_add(u: Seq<u8>, v: Seq<u8>, k: int, rm: int, wl: int, m: int)
    requires pkt_edit_pre(u, v, 3, k, rm, wl, m)
    ensures ({ let st = pf_e2(u); let a = pf_rrs_end(u, st, k); let b = pf_rrs_end(u, st, k + rm); let d = wl - (b - a);
        let ou = opt_at(u, pf_e2(u), be16(u, 10) as int); let ov = opt_at(v, pf_e2(v), be16(v, 10) as int);
        (if rm == 1 && pf_is_opt(u, a) { ov.is_none() } else { ov == moved_o(ou, a, d)
            && (ou matches Some(o) ==> opt_data(v, ov.unwrap()) == opt_data(u, o) && 0 <= ov.unwrap() && ov.unwrap() + 10 <= v.len() && 0 <= o && o + 10 <= u.len()) }) }),
{
    hide(pf_rr); hide(pf_rrs); hide(pf_rrs_end); hide(pf_n_opt); hide(pf_packet); hide(opts); hide(opt_at);
    let e2 = pf_e2(u); let ar = be16(u, 10) as int; let a = pf_rrs_end(u, e2, k); let b = pf_rrs_end(u, e2, k + rm); let d = wl - (b - a);
    lemma_pkt_edit(u, v, 3, k, rm, wl, m);
    lemma_pf_packet_facts(u); lemma_pf_packet_facts(v);
    let arv = ar - rm + m;
    lemma_opt_at_3(u, e2, ar, k, rm);
    lemma_opt_at_3(v, e2, arv, k, m);
    assert(pf_rrs_end(v, e2, k + m) == a + wl) by { if m == 1 { } }
    assert forall|i: int| e2 <= i < pf_rrs_end(u, e2, k) implies u[i] == v[i - e2 + e2] by { }
    lemma_opt_at_shift(u, e2, k, v, e2);
    assert forall|i: int| b <= i < pf_rrs_end(u, b, ar - k - rm) implies u[i] == v[i - b + (a + wl)] by { assert(v[i + d] == u[i]); }
    lemma_opt_at_shift(u, b, ar - k - rm, v, a + wl);
}

// ---- the packet object after such an edit: its view is again the decode of its bytes
pub open spec fn some_if(c: bool, x: int) -> Option<usize> { if c { Some(x as usize) } else { None } }
pub open spec fn edited(fin: ParsedPacket, mid: ParsedPacket, si: int, k: int, rm: int, wl: int, m: int) -> bool {
    let u = mid.bytes(); let v = fin.bytes();
    let st = sec_st(u, si); let n = sec_n(u, si); let a = pf_rrs_end(u, st, k); let b = pf_rrs_end(u, st, k + rm); let d = wl - (b - a);
    let c = n - rm + m;
    fin.packet.is_some()
    && fin.offset_question == mid.offset_question
    && fin.offset_answers == (if si == 1 { some_if(c > 0, st) } else { mid.offset_answers })
    && fin.offset_nameservers == (if si == 2 { some_if(c > 0, st) } else if si < 2 { shift_u(mid.offset_nameservers, d) } else { mid.offset_nameservers })
    && fin.offset_additional == (if si == 3 { some_if(c > 0, st) } else { shift_u(mid.offset_additional, d) })
    && (if rm == 1 && pf_is_opt(u, a) { fin.offset_edns.is_none() && fin.edns_count == 0 && fin.ext_rcode.is_none() && fin.edns_version.is_none() && fin.ext_flags.is_none() }
        else { fin.offset_edns == edns_after(mid.offset_edns, a as usize, d) && fin.edns_count == mid.edns_count && fin.ext_rcode == mid.ext_rcode
               && fin.edns_version == mid.edns_version && fin.ext_flags == mid.ext_flags })
    && (fin.cached.is_none() || fin.cached == mid.cached)
}
pub proof fn lemma_edit_wf(fin: ParsedPacket, mid: ParsedPacket, si: int, k: int, rm: int, wl: int, m: int)
    requires mid.wf(), pkt_edit_pre(mid.bytes(), fin.bytes(), si, k, rm, wl, m), edited(fin, mid, si, k, rm, wl, m)
    ensures fin.wf(), pf_packet(fin.bytes())
{
    hide(pf_rr); hide(pf_rrs); hide(pf_rrs_end); hide(pf_n_opt); hide(pf_packet); hide(wf_bytes); hide(opts); hide(opt_at); hide(recs_all); hide(sec_end); hide(n_opt);
    hide(walk); hide(exp); hide(pcs_walk); hide(rd_ok);
    let u = mid.bytes(); let v = fin.bytes();
    let st = sec_st(u, si); let n = sec_n(u, si); let a = pf_rrs_end(u, st, k); let b = pf_rrs_end(u, st, k + rm); let d = wl - (b - a);
    lemma_pkt_edit(u, v, si, k, rm, wl, m);
    lemma_pf_wf_bytes(u);
    lemma_pf_wf_bytes(v);
    let vu = mid.packet.unwrap(); axiom_vec_len(&vu);
    let vf = fin.packet.unwrap(); axiom_vec_len(&vf);
    if si < 3 { lemma_edit_edns_other(u, v, si, k, rm, wl, m); } else { lemma_edit_edns_add(u, v, k, rm, wl, m); }
    // the cached question
    if fin.cached.is_some() {
        if be16(u, 4) == 1 {
            reveal(pf_packet);
            lemma_name_exp_id(u, 12); lemma_name_exp_id(v, 12);
            let qe = pcs_end(u, 12).unwrap();
            lemma_pcs_bounds(u, 12, 0);
            assert(12 < qe && qe + 4 == pf_q_end(u) && qe + 4 <= a);
            assert(v.subrange(12, qe) =~= u.subrange(12, qe));
            assert(be16(v, qe) == be16(u, qe) && be16(v, qe + 2) == be16(u, qe + 2)) by { assert(v[qe] == u[qe] && v[qe + 1] == u[qe + 1] && v[qe + 2] == u[qe + 2] && v[qe + 3] == u[qe + 3]); }
        }
    }
    reveal(ParsedPacket::wf);
    assert(wf_bytes(v));
    assert(optu(fin.offset_question) == sec_off(v, Section::Question));
    assert(optu(fin.offset_answers) == sec_off(v, Section::Answer));
    assert(optu(fin.offset_nameservers) == sec_off(v, Section::NameServers));
    assert(optu(fin.offset_additional) == sec_off(v, Section::Additional));
    assert(fin.cached matches Some(c) ==> be16(v, 4) == 1 && c.0@ == name_exp(v, 12) && c.1 == be16(v, name_end(v, 12).unwrap()) && c.2 == be16(v, name_end(v, 12).unwrap() + 2));
    let ou = opt_at(u, pf_e2(u), be16(u, 10) as int); let ov = opt_at(v, pf_e2(v), be16(v, 10) as int);
    assert(sec_start(u, Section::Additional) == pf_e2(u) && sec_start(v, Section::Additional) == pf_e2(v));
    if rm == 1 && pf_is_opt(u, a) { assert(ov.is_none()); }
    else if ou.is_some() {
        let o = ou.unwrap(); let o2 = ov.unwrap();
        assert(mid.offset_edns == Some((o + 10) as usize));
        assert(o2 == (if a < o + 10 { o + d } else { o }));
        assert(fin.offset_edns == Some((o2 + 10) as usize));
        assert(opt_data(v, o2) == opt_data(u, o));
        assert(opts(v, o2 + 10, o2 + 10 + be16(v, o2 + 8)) == opts(u, o + 10, o + 10 + be16(u, o + 8)));
    } else { assert(ov.is_none()); }
}

// ---- a pointer-free record whose owner name is replaced by another clean name is a pointer-free record of the same type
pub proof fn lemma_pf_rr_rename(u: Seq<u8>, off: int, v: Seq<u8>, nm: Seq<u8>)
    requires pf_rr(u, off), !pf_is_opt(u, off), is_cname(nm), 0 <= off, ({ let ne = pcs_end(u, off).unwrap(); let rest = pf_end(u, off) - ne;
        off + nm.len() + rest <= v.len()
        && (forall|i: int| 0 <= i < nm.len() ==> v[off + i] == nm[i])
        && (forall|j: int| 0 <= j < rest ==> #[trigger] v[off + nm.len() + j] == u[ne + j]) }),
    ensures pf_rr(v, off), pcs_end(v, off) == Some(off + nm.len()), pf_end(v, off) == off + nm.len() + (pf_end(u, off) - pcs_end(u, off).unwrap()),
        !pf_is_opt(v, off), be16(v, off + nm.len()) == be16(u, pcs_end(u, off).unwrap()),
{
    let ne = pcs_end(u, off).unwrap(); let d = ne + 10; let l = be16(u, ne + 8) as int; let t = be16(u, ne);
    let ne2 = off + nm.len(); let sh = ne2 - ne;
    lemma_pf_rr_spec(u, off, SecT::Additional, false);
    lemma_pcs_bounds(u, off, 0);
    assert forall|i: int| 0 <= i < nm.len() implies nm[i] == v[i - 0 + off] by { }
    lemma_pcs_shift(nm, 0, v, off, 0);
    assert(forall|k: int| ne <= k < pf_end(u, off) ==> u[k] == v[k + sh]) by {
        assert forall|k: int| ne <= k < pf_end(u, off) implies u[k] == v[k + sh] by { assert(v[off + nm.len() + (k - ne)] == u[ne + (k - ne)]); }
    }
    assert(be16(v, ne + sh) == t) by { assert(u[ne] == v[ne + sh]); assert(u[ne + 1] == v[ne + 1 + sh]); }
    assert(be16(v, ne + 8 + sh) == be16(u, ne + 8)) by { assert(u[ne + 8] == v[ne + 8 + sh]); assert(u[ne + 9] == v[ne + 9 + sh]); }
    if t == 2 || t == 5 || t == 12 { lemma_pcs_shift(u, d, v, d + sh, 0); }
    else if t == 15 { lemma_pcs_shift(u, d + 2, v, d + 2 + sh, 0); }
    else if t == 6 { let n1 = pcs_end(u, d).unwrap(); lemma_pcs_bounds(u, d, 0); lemma_pcs_bounds(u, n1, 0); lemma_pcs_shift(u, d, v, d + sh, 0); lemma_pcs_shift(u, n1, v, n1 + sh, 0); }
    else if t == 39 { lemma_plain_shift(u, d, v, d + sh, 0); }
}
