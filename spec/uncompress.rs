// ===== spec/uncompress.rs: the specification of decompression (C05): record by record, names expanded, RDLENGTH rewritten =====
// expanded data of the record whose owner name ends at ne
pub open spec fn un_rd(p: Seq<u8>, ne: int) -> Seq<u8> {
    let t = be16(p, ne); let l = be16(p, ne + 8) as int; let d = ne + 10;
    if t == 2 || t == 5 || t == 12 { name_exp(p, d) }                                     // NS CNAME PTR
    else if t == 15 { p.subrange(d, d + 2) + name_exp(p, d + 2) }                         // MX
    else if t == 6 { let n1 = name_end(p, d).unwrap(); let n2 = name_end(p, n1).unwrap();
                     name_exp(p, d) + name_exp(p, n1) + p.subrange(n2, n2 + 20) }         // SOA
    else { p.subrange(d, d + l) }                                                         // everything else, OPT included: verbatim
}
pub open spec fn un_rr(p: Seq<u8>, off: int) -> Seq<u8> {
    let ne = rec_ne(p, off);
    name_exp(p, off) + p.subrange(ne, ne + 8) + b16(un_rd(p, ne).len() as u16) + un_rd(p, ne)
}
// the first n records of the run starting at off, re-encoded (indexed form: one more record appends to the encoding of the prefix)
pub open spec fn un_rrs(p: Seq<u8>, off: int, n: int) -> Seq<u8>
    decreases n
{ if n <= 0 { Seq::<u8>::empty() } else { un_rrs(p, off, n - 1) + un_rr(p, rec_start(p, off, n - 1)) } }
pub open spec fn un_q(p: Seq<u8>) -> Seq<u8> {
    if be16(p, 4) == 1 { let qne = name_end(p, 12).unwrap(); name_exp(p, 12) + p.subrange(qne, qne + 4) } else { Seq::<u8>::empty() }
}
pub open spec fn uncompress_spec(p: Seq<u8>) -> Seq<u8> {
    p.subrange(0, 12) + un_q(p)
        + un_rrs(p, sec_start(p, Section::Answer), sec_count(p, Section::Answer))
        + un_rrs(p, sec_start(p, Section::NameServers), sec_count(p, Section::NameServers))
        + un_rrs(p, sec_start(p, Section::Additional), sec_count(p, Section::Additional))
}
// where the record boundary r of the input lands in the output; base = output length before this run; prev = result so far.
// Record starts are distinct, so at most one clause ever fires.
pub open spec fn bm_k(p: Seq<u8>, off: int, n: int, r: int, base: int, prev: Option<int>) -> Option<int>
    decreases n
{ if n <= 0 { prev } else if rec_start(p, off, n - 1) == r { Some(base + un_rrs(p, off, n - 1).len()) } else { bm_k(p, off, n - 1, r, base, prev) } }
pub open spec fn bmap(p: Seq<u8>, r: int) -> Option<int> {
    let sa = sec_start(p, Section::Answer); let ca = sec_count(p, Section::Answer);
    let sn = sec_start(p, Section::NameServers); let cn = sec_count(p, Section::NameServers);
    let sr = sec_start(p, Section::Additional); let cr = sec_count(p, Section::Additional);
    let b1: int = 12int + un_q(p).len() as int;
    let b2: int = b1 + un_rrs(p, sa, ca).len();
    let b3: int = b2 + un_rrs(p, sn, cn).len();
    let b4: int = b3 + un_rrs(p, sr, cr).len();
    let m0: Option<int> = if be16(p, 4) == 1 && r == 12 { Some(12int) } else { None };
    let m1 = bm_k(p, sa, ca, r, b1, m0);
    let m2 = bm_k(p, sn, cn, r, b2, m1);
    let m3 = bm_k(p, sr, cr, r, b3, m2);
    if r == p.len() { Some(b4) } else { m3 }
}
pub proof fn lemma_un_rd_len(p: Seq<u8>, off: int)
    requires rec_ok(p, off)
    ensures un_rd(p, rec_ne(p, off)).len() <= 65535, un_rr(p, off).len() >= 11
{
    let ne = rec_ne(p, off); let t = be16(p, ne); let l = be16(p, ne + 8) as int; let d = ne + 10;
    lemma_exp_len(p, off, p.len() as int, off, 16, 0, None);
    lemma_rec_bounds(p, off);
    if t == 6 { lemma_name_end_bounds(p, d); lemma_name_end_bounds(p, name_end(p, d).unwrap()); }
    if t == 2 || t == 5 || t == 12 { lemma_exp_len(p, d, p.len() as int, d, 16, 0, None); }
    else if t == 15 { lemma_exp_len(p, d + 2, p.len() as int, d + 2, 16, 0, None); }
    else if t == 6 { let n1 = name_end(p, d).unwrap(); lemma_exp_len(p, d, p.len() as int, d, 16, 0, None); lemma_exp_len(p, n1, p.len() as int, n1, 16, 0, None); }
}
// a prefix of a run of well-formed records is a run of well-formed records
pub proof fn lemma_recs_prefix(p: Seq<u8>, off: int, n: int, k: int)
    requires recs_all(p, off, n), 0 <= k <= n
    ensures recs_all(p, off, k)
    decreases k
{ if k > 0 { lemma_recs_prefix(p, rec_end(p, off), n - 1, k - 1); } }

// the start of the question is always a boundary of an accepted packet
pub proof fn lemma_bm_keep(p: Seq<u8>, off: int, n: int, r: int, base: int, prev: Option<int>)
    requires prev.is_some()
    ensures bm_k(p, off, n, r, base, prev).is_some()
    decreases n
{ if n > 0 { lemma_bm_keep(p, off, n - 1, r, base, prev); } }
pub proof fn lemma_bmap_first(p: Seq<u8>)
    requires wf_packet(p)
    ensures bmap(p, 12).is_some()
{
    let sa = sec_start(p, Section::Answer); let ca = sec_count(p, Section::Answer);
    let sn = sec_start(p, Section::NameServers); let cn = sec_count(p, Section::NameServers);
    let sr = sec_start(p, Section::Additional); let cr = sec_count(p, Section::Additional);
    let b1: int = 12int + un_q(p).len() as int;
    let b2: int = b1 + un_rrs(p, sa, ca).len();
    let b3: int = b2 + un_rrs(p, sn, cn).len();
    let m0: Option<int> = Some(12int);
    lemma_bm_keep(p, sa, ca, 12, b1, m0);
    lemma_bm_keep(p, sn, cn, 12, b2, bm_k(p, sa, ca, 12, b1, m0));
    lemma_bm_keep(p, sr, cr, 12, b3, bm_k(p, sn, cn, 12, b2, bm_k(p, sa, ca, 12, b1, m0)));
}

// one iteration of a section loop of uncompress: owner name, then fixed fields + data
pub proof fn lemma_un_step(p: Seq<u8>, b: Seq<u8>, s: int, kk: int, off: int, u0: Seq<u8>, u1: Seq<u8>, u2: Seq<u8>)
    requires kk >= 0, u0 == b + un_rrs(p, s, kk), off == rec_start(p, s, kk), u1 == u0 + name_exp(p, off),
        u2 == u1 + p.subrange(rec_ne(p, off), rec_ne(p, off) + 8) + b16(un_rd(p, rec_ne(p, off)).len() as u16) + un_rd(p, rec_ne(p, off)),
    ensures u2 == b + un_rrs(p, s, kk + 1)
{
    let ne = rec_ne(p, off);
    assert(u2 =~= u0 + un_rr(p, off));
    assert((b + un_rrs(p, s, kk)) + un_rr(p, off) =~= b + (un_rrs(p, s, kk) + un_rr(p, off)));
}
pub proof fn lemma_bm_step(p: Seq<u8>, s: int, kk: int, r: int, base: int, prev: Option<int>)
    requires kk >= 0
    ensures bm_k(p, s, kk + 1, r, base, prev) == (if rec_start(p, s, kk) == r { Some(base + un_rrs(p, s, kk).len()) } else { bm_k(p, s, kk, r, base, prev) })
{ }
