// ===== spec/rename.rs: the renaming rule of C07 on one pointer-free wire name =====
pub open spec fn is_name(s: Seq<u8>) -> bool { plain_walk(s, 0, 0) == Some(s.len() as int) }

// off is a label boundary of the name s, reached by hopping from boundary cur
pub open spec fn reach(s: Seq<u8>, cur: int, off: int) -> bool
    decreases s.len() - cur
{
    if cur < 0 || cur >= s.len() { false }
    else if cur == off { true }
    else if cur > off || s[cur] == 0 || s[cur] > 63 || cur + s[cur] + 1 > s.len() { false }
    else { reach(s, cur + s[cur] + 1, off) }
}
pub open spec fn eq_ci(a: Seq<u8>, b: Seq<u8>) -> bool {
    a.len() == b.len() && forall|k: int| 0 <= k < a.len() ==> lower(#[trigger] a[k]) == lower(b[k])
}
pub enum Rep { NoMatch, TooLong, New(Seq<u8>) }
// C07: "equals the source (or, in suffix mode, ends with it on a label boundary), compared case-insensitively,
//       has that part replaced by the target"; "when a rewritten name would exceed 255 bytes the call fails"
pub open spec fn replace_spec(name: Seq<u8>, target: Seq<u8>, source: Seq<u8>, suffix: bool) -> Rep {
    if name.len() < source.len() || (!suffix && name.len() != source.len()) { Rep::NoMatch }
    else {
        let off = name.len() - source.len();
        if reach(name, 0, off) && eq_ci(name.subrange(off, name.len() as int), source) {
            if off + target.len() > 255 { Rep::TooLong } else { Rep::New(name.subrange(0, off) + target) }
        } else { Rep::NoMatch }
    }
}
pub proof fn lemma_is_name_skip(s: Seq<u8>)
    requires is_name(s)
    ensures skip_walk(s, 0) == Some(s.len() as int)
{ lemma_plain_skip(s, 0, 0); }
