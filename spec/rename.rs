// ===== spec/rename.rs: the renaming rule of C07 on one pointer-free wire name =====
pub open spec fn is_name(s: Seq<u8>) -> bool { plain_walk(s, 0, 0) == Some(s.len() as int) }

// off is a label boundary of the name s, reached by hopping from boundary cur
pub open spec fn reach(s: Seq<u8>, cur: int, off: int) -> bool
    decreases s.len() - cur
{
    if cur < 0 || cur >= s.len() { false }
    else if cur == off { true }
    else if cur > off || s[cur] == 0 || s[cur] > 63 || cur + s[cur] + 1 > s.len() { false }
    else { reach(s, cur + s[cur] + 1, off) }
}
pub open spec fn eq_ci(a: Seq<u8>, b: Seq<u8>) -> bool {
    a.len() == b.len() && forall|k: int| 0 <= k < a.len() ==> lower(#[trigger] a[k]) == lower(b[k])
}
pub enum Rep { NoMatch, TooLong, New(Seq<u8>) }
// C07: "equals the source (or, in suffix mode, ends with it on a label boundary), compared case-insensitively,
//       has that part replaced by the target"; "when a rewritten name would exceed 255 bytes the call fails"
pub open spec fn replace_spec(name: Seq<u8>, target: Seq<u8>, source: Seq<u8>, suffix: bool) -> Rep {
    if name.len() < source.len() || (!suffix && name.len() != source.len()) { Rep::NoMatch }
    else {
        let off = name.len() - source.len();
        if reach(name, 0, off) && eq_ci(name.subrange(off, name.len() as int), source) {
            if off + target.len() > 255 { Rep::TooLong } else { Rep::New(name.subrange(0, off) + target) }
        } else { Rep::NoMatch }
    }
}
pub proof fn lemma_is_name_skip(s: Seq<u8>)
    requires is_name(s)
    ensures skip_walk(s, 0) == Some(s.len() as int)
{ lemma_plain_skip(s, 0, 0); }

pub proof fn lemma_cname_name(s: Seq<u8>)
    requires is_cname(s)
    ensures is_name(s), pcs_end(s, 0) == Some(s.len() as int)
{ lemma_pcs_plain(s, 0, 0); }
// C07: the rewritten name (labels kept up to the boundary `off`, then the target) is again a clean name
pub proof fn lemma_replace_pcs(name: Seq<u8>, target: Seq<u8>, cur: int, off: int)
    requires pcs_walk(name, cur, cur) == Some(name.len() as int), reach(name, cur, off), 0 <= cur <= off, is_cname(target), off + target.len() <= 255,
    ensures pcs_walk(name.subrange(0, off) + target, cur, cur) == Some(off + target.len())
    decreases name.len() - cur
{
    let w = name.subrange(0, off) + target;
    lemma_pcs_bounds(name, cur, cur);
    lemma_reach_le(name, cur, off);
    if cur == off {
        lemma_pcs_nlen_up(target, 0, 0, off);
        assert forall|i: int| 0 <= i < target.len() implies target[i] == w[i - 0 + off] by { }
        lemma_pcs_shift(target, 0, w, off, off);
    } else {
        let b = name[cur];
        lemma_reach_le(name, cur + b + 1, off);
        assert(w[cur] == b);
        assert(!has_bad(w, cur + 1, cur + 1 + b)) by {
            if has_bad(w, cur + 1, cur + 1 + b) { let i = choose|i: int| cur + 1 <= i < cur + 1 + b && bad_char(#[trigger] w[i]); assert(w[i] == name[i]); assert(bad_char(name[i])); }
        }
        lemma_pcs_bounds(name, cur + b + 1, cur + b + 1);
        lemma_replace_pcs(name, target, cur + b + 1, off);
    }
}
// reach only hops forward
pub proof fn lemma_reach_le(s: Seq<u8>, cur: int, off: int)
    requires reach(s, cur, off)
    ensures cur <= off < s.len()
    decreases s.len() - cur
{ if cur != off { lemma_reach_le(s, cur + s[cur] + 1, off); } }
// a clean name stays clean when more length has already been accumulated, as long as the total fits
pub proof fn lemma_pcs_nlen_up(p: Seq<u8>, off: int, nlen: int, n2: int)
    requires pcs_walk(p, off, nlen) matches Some(e) && nlen <= n2 && n2 + (e - off) <= 255
    ensures pcs_walk(p, off, n2) == pcs_walk(p, off, nlen)
    decreases p.len() - off
{
    let b = p[off];
    lemma_pcs_bounds(p, off, nlen);
    if b != 0 { lemma_pcs_bounds(p, off + b + 1, nlen + b + 1); lemma_pcs_nlen_up(p, off + b + 1, nlen + b + 1, n2 + b + 1); }
}

// the name the renamer writes for an expanded name: the rewritten one, or the original when nothing matches
pub open spec fn renamed_name(nm: Seq<u8>, target: Seq<u8>, source: Seq<u8>, suffix: bool) -> Seq<u8> {
    match replace_spec(nm, target, source, suffix) { Rep::New(w) => w, _ => nm }
}
