// ===== spec/pfedit.rs: decompression at the run and packet level (C05): accepted, pointer-free, stable, boundary map =====
pub proof fn lemma_n_opt_append(p: Seq<u8>, s: int, n: int)
    requires n >= 0
    ensures n_opt(p, s, n + 1) == n_opt(p, s, n) + (if is_opt(p, rec_start(p, s, n)) { 1int } else { 0int })
    decreases n
{ reveal_with_fuel(n_opt, 2); reveal_with_fuel(rec_start, 2); if n > 0 { lemma_n_opt_append(p, rec_end(p, s), n - 1); } }

// u holds un_rrs(p, s, n) at position b  ==>  there are n pointer-free records there, record k starting at b + |un_rrs(p, s, k)|
pub proof fn lemma_un_rrs_pf(p: Seq<u8>, s: int, n: int, u: Seq<u8>, b: int)
    requires recs_all(p, s, n), 0 <= s <= p.len(), n >= 0, 0 <= b, b + un_rrs(p, s, n).len() <= u.len(),
        forall|i: int| 0 <= i < un_rrs(p, s, n).len() ==> u[b + i] == un_rrs(p, s, n)[i],
    ensures pf_rrs(u, b, n), pf_rrs_end(u, b, n) == b + un_rrs(p, s, n).len(), pf_n_opt(u, b, n) == n_opt(p, s, n),
        forall|k: int| 0 <= k <= n ==> #[trigger] pf_rrs_end(u, b, k) == b + un_rrs(p, s, k).len(),
        forall|k: int| 0 <= k < n ==> pcs_end(u, #[trigger] pf_rrs_end(u, b, k)) == Some(b + un_rrs(p, s, k).len() + name_exp(p, rec_start(p, s, k)).len()),
    decreases n
{
    if n > 0 {
        let pre = un_rrs(p, s, n - 1); let o = rec_start(p, s, n - 1); let w = un_rr(p, o);
        lemma_recs_prefix(p, s, n, n - 1);
        lemma_rec_start_bounds(p, s, n, n - 1);
        assert(un_rrs(p, s, n) == pre + w);
        assert forall|i: int| 0 <= i < pre.len() implies u[b + i] == pre[i] by { assert(un_rrs(p, s, n)[i] == pre[i]); }
        lemma_un_rrs_pf(p, s, n - 1, u, b);
        let b2 = b + pre.len();
        assert forall|i: int| 0 <= i < w.len() implies u[b2 + i] == w[i] by { assert(un_rrs(p, s, n)[pre.len() + i] == w[i]); assert(u[b + (pre.len() + i)] == un_rrs(p, s, n)[pre.len() + i]); }
        lemma_un_rr_pf(p, o, u, b2);
        lemma_pf_rrs_append(u, b, n - 1);
        lemma_n_opt_append(p, s, n - 1);
        assert forall|k: int| 0 <= k <= n implies #[trigger] pf_rrs_end(u, b, k) == b + un_rrs(p, s, k).len() by { }
        assert forall|k: int| 0 <= k < n implies pcs_end(u, #[trigger] pf_rrs_end(u, b, k)) == Some(b + un_rrs(p, s, k).len() + name_exp(p, rec_start(p, s, k)).len()) by { }
    }
}

// ---- C05: the output of decompression is a pointer-free packet with the same header
pub proof fn lemma_un_pf_packet(p: Seq<u8>)
    requires wf_bytes(p)
    ensures pf_packet(uncompress_spec(p)), uncompress_spec(p).subrange(0, 12) == p.subrange(0, 12),
        // section k of the output starts where the specification says
        pf_q_end(uncompress_spec(p)) == 12 + un_q(p).len(),
        be16(p, 4) == 1 ==> pcs_end(uncompress_spec(p), 12) == Some(12 + name_exp(p, 12).len() as int),
{
    let u = uncompress_spec(p);
    let sa = sec_start(p, Section::Answer); let ca = sec_count(p, Section::Answer);
    let sn = sec_start(p, Section::NameServers); let cn = sec_count(p, Section::NameServers);
    let sr = sec_start(p, Section::Additional); let cr = sec_count(p, Section::Additional);
    let h = p.subrange(0, 12); let q = un_q(p); let ra = un_rrs(p, sa, ca); let rn = un_rrs(p, sn, cn); let rr_ = un_rrs(p, sr, cr);
    lemma_wf_bytes_facts(p);
    assert(u == h + q + ra + rn + rr_);
    assert(u.subrange(0, 12) =~= h);
    assert forall|i: int| 0 <= i < 12 implies u[i] == p[i] by { assert(h[i] == p[i]); }
    assert(be16(u, 4) == be16(p, 4) && be16(u, 6) == be16(p, 6) && be16(u, 8) == be16(p, 8) && be16(u, 10) == be16(p, 10) && be16(u, 2) == be16(p, 2));
    let b1: int = 12 + q.len() as int;
    if be16(p, 4) == 1 {
        let qne = name_end(p, 12).unwrap();
        let nm = name_exp(p, 12);
        lemma_name_end_bounds(p, 12);
        lemma_name_exp_valid(p, 12);
        assert forall|i: int| 0 <= i < nm.len() implies nm[i] == u[i + 12] by { assert(q[i] == nm[i]); assert(u[12 + i] == q[i]); }
        lemma_pcs_shift(nm, 0, u, 12, 0);
    }
    let b2: int = b1 + ra.len(); let b3: int = b2 + rn.len();
    assert forall|i: int| 0 <= i < ra.len() implies u[b1 + i] == ra[i] by { }
    lemma_un_rrs_pf(p, sa, ca, u, b1);
    assert forall|i: int| 0 <= i < rn.len() implies u[b2 + i] == rn[i] by { }
    lemma_un_rrs_pf(p, sn, cn, u, b2);
    assert forall|i: int| 0 <= i < rr_.len() implies u[b3 + i] == rr_[i] by { }
    lemma_un_rrs_pf(p, sr, cr, u, b3);
}
// C05: "decompression ... returns a packet that is itself accepted"
pub proof fn lemma_un_accepted(p: Seq<u8>)
    requires wf_packet(p), wf_bytes(p)
    ensures wf_packet(uncompress_spec(p)), pf_packet(uncompress_spec(p))
{
    let u = uncompress_spec(p);
    lemma_un_pf_packet(p);
    let qne = name_end(p, 12).unwrap();
    lemma_name_end_bounds(p, 12);
    let nm = name_exp(p, 12);
    let q = un_q(p);
    // the four fixed question bytes are copied verbatim
    assert(u.subrange(0, 12) == p.subrange(0, 12));
    assert forall|i: int| 0 <= i < 12 implies u[i] == p[i] by { assert(u.subrange(0, 12)[i] == p.subrange(0, 12)[i]); }
    assert(be16(u, 4) == be16(p, 4) && be16(u, 6) == be16(p, 6) && be16(u, 8) == be16(p, 8) && be16(u, 2) == be16(p, 2));
    let nl = nm.len() as int;
    let e = 12 + nl;
    assert(u[e + 2] == p[qne + 2] && u[e + 3] == p[qne + 3]) by {
        assert(q[nl + 2] == p.subrange(qne, qne + 4)[2]); assert(q[nl + 3] == p.subrange(qne, qne + 4)[3]);
        lemma_wf_bytes_facts(p);
        let sa = sec_start(p, Section::Answer); let ca = sec_count(p, Section::Answer);
        let sn = sec_start(p, Section::NameServers); let cn = sec_count(p, Section::NameServers);
        let sr = sec_start(p, Section::Additional); let cr = sec_count(p, Section::Additional);
        assert(u == p.subrange(0, 12) + q + un_rrs(p, sa, ca) + un_rrs(p, sn, cn) + un_rrs(p, sr, cr));
        assert(u[12 + (nl + 2)] == q[nl + 2]);
        assert(u[12 + (nl + 3)] == q[nl + 3]);
    }
    lemma_pf_accepted(u);
}

// ---- wf_packet gives the reader-level invariant on the bytes (the byte part of lemma_parse_wf)
pub proof fn lemma_wf_packet_bytes(p: Seq<u8>)
    requires wf_packet(p)
    ensures wf_bytes(p), sec_start(p, Section::Answer) == name_end(p, 12).unwrap() + 4,
{
    let qne = name_end(p, 12).unwrap();
    let o1 = qne + 4; let an = be16(p, 6) as int; let ns = be16(p, 8) as int; let ar = be16(p, 10) as int;
    lemma_name_end_bounds(p, 12);
    lemma_rrs_recs(p, o1, an, SecT::Answer, None);
    lemma_rrs_opt(p, o1, an, SecT::Answer, None);
    let r1 = rrs(p, o1, an, SecT::Answer, None).unwrap();
    lemma_rrs_recs(p, r1.0, ns, SecT::NameServers, r1.1);
    lemma_rrs_opt(p, r1.0, ns, SecT::NameServers, r1.1);
    let r2 = rrs(p, r1.0, ns, SecT::NameServers, r1.1).unwrap();
    lemma_rrs_recs(p, r2.0, ar, SecT::Additional, r2.1);
    lemma_rrs_opt(p, r2.0, ar, SecT::Additional, r2.1);
}

// ---- C05: "left unchanged by a second decompression" (name-level lemmas are in spec/pfedit_names.rs)
pub proof fn lemma_un_rr_id(v: Seq<u8>, off: int)
    requires pf_rr(v, off)
    ensures un_rr(v, off) == v.subrange(off, pf_end(v, off))
{
    let ne = pcs_end(v, off).unwrap(); let t = be16(v, ne); let l = be16(v, ne + 8) as int; let d = ne + 10;
    lemma_pf_rec(v, off);
    lemma_name_exp_id(v, off);
    lemma_pcs_bounds(v, off, 0);
    let rd = un_rd(v, ne);
    if t == 2 || t == 5 || t == 12 { lemma_name_exp_id(v, d); }
    else if t == 15 { lemma_name_exp_id(v, d + 2); lemma_pcs_bounds(v, d + 2, 0); assert(v.subrange(d, d + 2) + v.subrange(d + 2, d + l) =~= v.subrange(d, d + l)); }
    else if t == 6 {
        let n1 = pcs_end(v, d).unwrap(); lemma_name_exp_id(v, d); lemma_name_exp_id(v, n1); lemma_pcs_bounds(v, d, 0); lemma_pcs_bounds(v, n1, 0);
        let n2 = pcs_end(v, n1).unwrap();
        assert(v.subrange(d, n1) + v.subrange(n1, n2) + v.subrange(n2, n2 + 20) =~= v.subrange(d, d + l));
    }
    assert(rd == v.subrange(d, d + l));
    lemma_be16_bytes(v[ne + 8], v[ne + 9]);
    assert(b16(rd.len() as u16) =~= v.subrange(ne + 8, ne + 10));
    assert(v.subrange(off, ne) + v.subrange(ne, ne + 8) + v.subrange(ne + 8, ne + 10) + v.subrange(d, d + l) =~= v.subrange(off, d + l));
}
pub proof fn lemma_un_rrs_id(v: Seq<u8>, s: int, n: int)
    requires pf_rrs(v, s, n), 0 <= s <= v.len(), n >= 0
    ensures un_rrs(v, s, n) == v.subrange(s, pf_rrs_end(v, s, n))
    decreases n
{
    lemma_pf_recs(v, s, n);
    if n == 0 { assert(v.subrange(s, s) =~= Seq::<u8>::empty()); }
    else {
        lemma_pf_rrs_prefix(v, s, n, n - 1);
        lemma_un_rrs_id(v, s, n - 1);
        let o = pf_rrs_end(v, s, n - 1);
        assert(rec_start(v, s, n - 1) == o);
        lemma_pf_rrs_last(v, s, n);
        lemma_un_rr_id(v, o);
        lemma_pf_rec(v, o);
        lemma_pf_recs(v, s, n - 1);
        assert(v.subrange(s, o) + v.subrange(o, pf_end(v, o)) =~= v.subrange(s, pf_rrs_end(v, s, n)));
    }
}
pub proof fn lemma_pf_rrs_prefix(v: Seq<u8>, s: int, n: int, k: int)
    requires pf_rrs(v, s, n), 0 <= k <= n
    ensures pf_rrs(v, s, k)
    decreases k
{ if k > 0 { lemma_pf_rrs_prefix(v, pf_end(v, s), n - 1, k - 1); } }
pub proof fn lemma_pf_rrs_last(v: Seq<u8>, s: int, n: int)
    requires pf_rrs(v, s, n), n > 0
    ensures pf_rr(v, pf_rrs_end(v, s, n - 1)), pf_rrs_end(v, s, n) == pf_end(v, pf_rrs_end(v, s, n - 1))
    decreases n
{ reveal_with_fuel(pf_rrs, 2); reveal_with_fuel(pf_rrs_end, 2); if n > 1 { lemma_pf_rrs_last(v, pf_end(v, s), n - 1); } }

pub proof fn lemma_concat5(v: Seq<u8>, a: int, b: int, c: int)
    requires 12 <= a <= b <= c <= v.len()
    ensures v.subrange(0, 12) + v.subrange(12, a) + v.subrange(a, b) + v.subrange(b, c) + v.subrange(c, v.len() as int) == v
{ assert(v.subrange(0, 12) + v.subrange(12, a) + v.subrange(a, b) + v.subrange(b, c) + v.subrange(c, v.len() as int) =~= v); }
pub proof fn lemma_un_q_id(v: Seq<u8>)
    requires v.len() >= 12, be16(v, 4) <= 1, be16(v, 4) == 1 ==> (pcs_end(v, 12) matches Some(qe) && qe + 4 <= v.len())
    ensures un_q(v) == v.subrange(12, pf_q_end(v)), 12 <= pf_q_end(v) <= v.len()
{
    if be16(v, 4) == 1 { lemma_name_exp_id(v, 12); lemma_pcs_bounds(v, 12, 0);
        let qe = pcs_end(v, 12).unwrap(); assert(v.subrange(12, qe) + v.subrange(qe, qe + 4) =~= v.subrange(12, qe + 4)); }
    else { assert(v.subrange(12, 12) =~= Seq::<u8>::empty()); }
}
pub proof fn lemma_un_idempotent(v: Seq<u8>)
    requires pf_packet(v)
    ensures uncompress_spec(v) == v
{
    let o1 = pf_q_end(v); let an = be16(v, 6) as int; let ns = be16(v, 8) as int; let ar = be16(v, 10) as int;
    let o2 = pf_rrs_end(v, o1, an); let o3 = pf_rrs_end(v, o2, ns);
    assert(sec_start(v, Section::Answer) == o1 && sec_start(v, Section::NameServers) == o2 && sec_start(v, Section::Additional) == o3) by { lemma_pf_wf_bytes(v); }
    lemma_un_q_id(v);
    lemma_pf_rrs_bounds(v, o1, an); lemma_pf_rrs_bounds(v, o2, ns); lemma_pf_rrs_bounds(v, o3, ar);
    lemma_un_rrs_id(v, o1, an); lemma_un_rrs_id(v, o2, ns); lemma_un_rrs_id(v, o3, ar);
    lemma_concat5(v, o1, o2, o3);
}

// ---- C05: "it returns the offset of the same boundary in the output"
pub proof fn lemma_bm_k_out(p: Seq<u8>, s: int, n: int, r: int, base: int, prev: Option<int>)
    requires recs_all(p, s, n), 0 <= s <= p.len(), n >= 0, r < s || r >= sec_end(p, s, n)
    ensures bm_k(p, s, n, r, base, prev) == prev
    decreases n
{
    if n > 0 {
        lemma_recs_prefix(p, s, n, n - 1);
        lemma_rec_start_bounds(p, s, n, n - 1);
        lemma_sec_end_mono(p, s, n, n - 1);
        lemma_bm_k_out(p, s, n - 1, r, base, prev);
    }
}
pub proof fn lemma_sec_end_mono(p: Seq<u8>, s: int, n: int, k: int)
    requires recs_all(p, s, n), 0 <= k <= n, 0 <= s <= p.len()
    ensures sec_end(p, s, k) == rec_start(p, s, k), sec_end(p, s, k) <= sec_end(p, s, n)
    decreases k
{
    if k > 0 { lemma_rec_bounds(p, s); lemma_sec_end_mono(p, rec_end(p, s), n - 1, k - 1); }
    else { lemma_sec_end_bounds(p, s, n); }
}
// record k of the run is mapped to the end of the encoding of the k records before it
pub proof fn lemma_bm_k_in(p: Seq<u8>, s: int, n: int, k: int, base: int, prev: Option<int>)
    requires recs_all(p, s, n), 0 <= s <= p.len(), 0 <= k < n
    ensures bm_k(p, s, n, rec_start(p, s, k), base, prev) == Some(base + un_rrs(p, s, k).len())
    decreases n
{
    let r = rec_start(p, s, k);
    if k == n - 1 { }
    else {
        lemma_recs_prefix(p, s, n, n - 1);
        lemma_bm_k_in(p, s, n - 1, k, base, prev);
        // the last record starts strictly after record k
        lemma_rec_start_bounds(p, s, n - 1, k);
        lemma_sec_end_mono(p, s, n, n - 1);
    }
}

// ---- C05, the statement: for every accepted packet the specified output is accepted, pointer-free, has the same header,
//      is a fixed point of decompression, and every record boundary is carried to the corresponding boundary of the output
pub proof fn theorem_c05(p: Seq<u8>)
    requires wf_packet(p)
    ensures wf_packet(uncompress_spec(p)), pf_packet(uncompress_spec(p)),
        uncompress_spec(p).subrange(0, 12) == p.subrange(0, 12),
        uncompress_spec(uncompress_spec(p)) == uncompress_spec(p),
{
    lemma_wf_packet_bytes(p);
    lemma_un_accepted(p);
    lemma_un_pf_packet(p);
    lemma_un_idempotent(uncompress_spec(p));
}
