// ===== spec/iter.rs: iterator invariants =====
pub proof fn lemma_rec_start_step(p: Seq<u8>, s: int, k: int)
    requires k >= 0
    ensures rec_start(p, s, k + 1) == rec_end(p, rec_start(p, s, k))
    decreases k
{ reveal_with_fuel(rec_start, 2); if k > 0 { lemma_rec_start_step(p, rec_end(p, s), k - 1); } }

impl<'t> ResponseIterator<'t> {
    pub open spec fn pp(&self) -> ParsedPacket { *self.rr_iterator.parsed_packet }
    pub open spec fn pk(&self) -> Seq<u8> { self.rr_iterator.parsed_packet.bytes() }
    pub open spec fn count(&self) -> int { sec_count(self.pk(), self.rr_iterator.section) }
    pub open spec fn sstart(&self) -> int { sec_start(self.pk(), self.rr_iterator.section) }
    pub open spec fn send(&self) -> int { sec_end(self.pk(), self.sstart(), self.count()) }
    // number of records the cursor has reached so far (0 before the first call of next, and for a cursor without offset)
    pub open spec fn visited(&self) -> int { if self.rr_iterator.offset.is_none() { 0 } else { self.count() - self.rr_iterator.rrs_left } }
    // the cursor designates record number visited()-1 of its section; the records after it tile the rest of the section
    pub open spec fn wf(&self) -> bool {
        self.rr_iterator.parsed_packet.wf() && is_rsec(self.rr_iterator.section) && (self.rr_iterator.offset matches Some(off) ==> (
            1 <= self.visited() <= self.count()
            && off == rec_start(self.pk(), self.sstart(), self.visited() - 1)
            && rec_ok(self.pk(), off as int) && self.rr_iterator.name_end == rec_ne(self.pk(), off as int)
            && self.rr_iterator.offset_next == rec_end(self.pk(), off as int)
            && recs_all(self.pk(), self.rr_iterator.offset_next as int, self.rr_iterator.rrs_left as int)
            && sec_end(self.pk(), self.rr_iterator.offset_next as int, self.rr_iterator.rrs_left as int) == self.send()
            && (if is_opt(self.pk(), off as int) { 1int } else { 0int }) + n_opt(self.pk(), self.rr_iterator.offset_next as int, self.rr_iterator.rrs_left as int)
                 <= (if self.rr_iterator.section is Additional { 1int } else { 0int }) ))
    }
    // postcondition of maybe_skip_opt_section (without the prophecy clauses)
    pub open spec fn skip_post(this: Self, r: Option<Self>) -> bool {
        (r matches Some(it) ==> it.wf() && it.rr_iterator.offset.is_some() && !is_opt(it.pk(), it.rr_iterator.offset.unwrap() as int)
            && it.pp() == this.pp() && it.rr_iterator.section == this.rr_iterator.section
            && it.visited() == this.visited() + (if is_opt(this.pk(), this.rr_iterator.offset.unwrap() as int) { 1int } else { 0int }))
        && (r is None <==> is_opt(this.pk(), this.rr_iterator.offset.unwrap() as int) && this.visited() == this.count())
    }
    pub proof fn lemma_wf_facts(&self)
        requires self.wf()
        ensures self.pp().packet.is_some(), self.pk().len() >= 12,
            0 <= self.sstart() <= self.pk().len(), self.sstart() <= self.send() <= self.pk().len(),
            recs_all(self.pk(), self.sstart(), self.count()),
            n_opt(self.pk(), self.sstart(), self.count()) <= (if self.rr_iterator.section is Additional { 1int } else { 0int }),
            self.count() > 0 ==> (match self.rr_iterator.section { Section::Answer => optu(self.pp().offset_answers),
                  Section::NameServers => optu(self.pp().offset_nameservers), _ => optu(self.pp().offset_additional) }) == Some(self.sstart()),
    {
        let p = self.pk();
        lemma_wf_bytes_facts(p);
    }
}

pub proof fn lemma_wf_bytes_facts(p: Seq<u8>)
    requires wf_bytes(p)
    ensures 12 <= q_end(p) <= p.len(),
        q_end(p) <= sec_start(p, Section::NameServers) <= sec_start(p, Section::Additional) <= p.len(),
        sec_start(p, Section::Answer) == q_end(p),
{
    if be16(p, 4) == 1 { lemma_name_end_bounds(p, 12); }
    lemma_sec_end_bounds(p, q_end(p), be16(p, 6) as int);
    lemma_sec_end_bounds(p, sec_start(p, Section::NameServers), be16(p, 8) as int);
    lemma_sec_end_bounds(p, sec_start(p, Section::Additional), be16(p, 10) as int);
}

// ---- which section an offset belongs to, judged from the section offsets of the object (derive(PartialOrd) on Option: None < Some)
pub open spec fn opt_lt(a: Option<usize>, b: Option<usize>) -> bool {
    match (a, b) { (None, None) => false, (None, Some(_)) => true, (Some(_), None) => false, (Some(x), Some(y)) => x < y }
}
pub open spec fn section_at(pp: ParsedPacket, off: Option<usize>) -> Section {
    if pp.offset_additional.is_some() && !opt_lt(off, pp.offset_additional) { Section::Additional }
    else if pp.offset_nameservers.is_some() && !opt_lt(off, pp.offset_nameservers) { Section::NameServers }
    else if pp.offset_answers.is_some() && !opt_lt(off, pp.offset_answers) { Section::Answer }
    else { Section::Question }
}
pub proof fn lemma_rec_start_bounds(p: Seq<u8>, s: int, n: int, k: int)
    requires recs_all(p, s, n), 0 <= k < n, 0 <= s <= p.len()
    ensures s <= rec_start(p, s, k) < sec_end(p, s, n), rec_ok(p, rec_start(p, s, k)),
        sec_end(p, s, n) <= p.len(),
    decreases k
{
    lemma_rec_bounds(p, s);
    lemma_sec_end_bounds(p, rec_end(p, s), n - 1);
    if k > 0 { lemma_rec_start_bounds(p, rec_end(p, s), n - 1, k - 1); }
}
impl<'t> ResponseIterator<'t> {
    // C03: the section reported for the record under the cursor is the section being walked
    pub proof fn lemma_section(&self)
        requires self.wf(), self.rr_iterator.offset.is_some()
        ensures section_at(self.pp(), self.rr_iterator.offset) == self.rr_iterator.section, !opt_lt(self.rr_iterator.offset, self.pp().offset_question)
    {
        let p = self.pk();
        lemma_wf_bytes_facts(p);
        self.lemma_wf_facts();
        lemma_rec_start_bounds(p, self.sstart(), self.count(), self.visited() - 1);
        lemma_sec_end_bounds(p, sec_start(p, Section::Answer), be16(p, 6) as int);
        lemma_sec_end_bounds(p, sec_start(p, Section::NameServers), be16(p, 8) as int);
        lemma_sec_end_bounds(p, sec_start(p, Section::Additional), be16(p, 10) as int);
        if be16(p, 4) == 1 { lemma_name_end_bounds(p, 12); }
    }
}

// ---- question iterator
impl<'t> QuestionIterator<'t> {
    pub open spec fn pp(&self) -> ParsedPacket { *self.rr_iterator.parsed_packet }
    pub open spec fn pk(&self) -> Seq<u8> { self.rr_iterator.parsed_packet.bytes() }
    pub open spec fn wf(&self) -> bool {
        self.rr_iterator.parsed_packet.wf() && self.rr_iterator.section is Question && (self.rr_iterator.offset matches Some(off) ==> (
            off == 12 && be16(self.pk(), 4) == 1 && self.rr_iterator.rrs_left == 0
            && name_end(self.pk(), 12) == Some(self.rr_iterator.name_end as int)
            && self.rr_iterator.offset_next == self.rr_iterator.name_end + 4 && self.rr_iterator.offset_next <= self.pk().len()))
    }
}
// ---- EDNS option iterator
impl<'t> EdnsIterator<'t> {
    pub open spec fn pp(&self) -> ParsedPacket { *self.rr_iterator.parsed_packet }
    pub open spec fn pk(&self) -> Seq<u8> { self.rr_iterator.parsed_packet.bytes() }
    // [dstart, dend) is the option area of the OPT record
    pub open spec fn dstart(&self) -> int { self.pp().offset_edns.unwrap() as int }
    pub open spec fn dend(&self) -> int { self.dstart() + be16(self.pk(), self.dstart() - 2) }
    pub open spec fn wf(&self) -> bool {
        self.rr_iterator.parsed_packet.wf() && self.rr_iterator.section is Edns && (self.rr_iterator.offset matches Some(off) ==> (
            self.pp().offset_edns.is_some() && self.dstart() <= off && off + 4 <= self.dend() && self.dend() <= self.pk().len()
            && self.rr_iterator.name_end == off
            && self.rr_iterator.offset_next == off + 4 + be16(self.pk(), off + 2) && self.rr_iterator.offset_next <= self.dend()
            // the options before the cursor and after it tile the area: this is option number edns_count - rrs_left - 1
            && opts(self.pk(), self.dstart(), off as int) == Some(self.pp().edns_count - self.rr_iterator.rrs_left - 1)
            && opts(self.pk(), self.rr_iterator.offset_next as int, self.dend()) == Some(self.rr_iterator.rrs_left as int)))
    }
}
// options: splitting the tiling at an option boundary
pub proof fn lemma_opts_append(p: Seq<u8>, a: int, m: int, b: int)
    requires opts(p, a, m).is_some(), m + 4 <= b, m + 4 + be16(p, m + 2) <= b, a <= m
    ensures opts(p, a, m + 4 + be16(p, m + 2)) == Some(opts(p, a, m).unwrap() + 1)
    decreases m - a
{
    if a < m { let l = be16(p, a + 2) as int; lemma_opts_append(p, a + 4 + l, m, b); }
    else { reveal_with_fuel(opts, 2); }
}
