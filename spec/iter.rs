// ===== spec/iter.rs: iterator invariants =====
pub proof fn lemma_rec_start_step(p: Seq<u8>, s: int, k: int)
    requires k >= 0
    ensures rec_start(p, s, k + 1) == rec_end(p, rec_start(p, s, k))
    decreases k
{ reveal_with_fuel(rec_start, 2); if k > 0 { lemma_rec_start_step(p, rec_end(p, s), k - 1); } }

impl<'t> ResponseIterator<'t> {
    pub open spec fn pp(&self) -> ParsedPacket { *self.rr_iterator.parsed_packet }
    pub open spec fn pk(&self) -> Seq<u8> { self.rr_iterator.parsed_packet.bytes() }
    pub open spec fn count(&self) -> int { sec_count(self.pk(), self.rr_iterator.section) }
    pub open spec fn sstart(&self) -> int { sec_start(self.pk(), self.rr_iterator.section) }
    pub open spec fn send(&self) -> int { sec_end(self.pk(), self.sstart(), self.count()) }
    // number of records the cursor has reached so far (0 before the first call of next, and for a cursor without offset)
    pub open spec fn visited(&self) -> int { if self.rr_iterator.offset.is_none() { 0 } else { self.count() - self.rr_iterator.rrs_left } }
    // the cursor designates record number visited()-1 of its section; the records after it tile the rest of the section
    pub open spec fn wf(&self) -> bool {
        self.rr_iterator.parsed_packet.wf() && is_rsec(self.rr_iterator.section) && (self.rr_iterator.offset matches Some(off) ==> (
            1 <= self.visited() <= self.count()
            && off == rec_start(self.pk(), self.sstart(), self.visited() - 1)
            && rec_ok(self.pk(), off as int) && self.rr_iterator.name_end == rec_ne(self.pk(), off as int)
            && self.rr_iterator.offset_next == rec_end(self.pk(), off as int)
            && recs_all(self.pk(), self.rr_iterator.offset_next as int, self.rr_iterator.rrs_left as int)
            && sec_end(self.pk(), self.rr_iterator.offset_next as int, self.rr_iterator.rrs_left as int) == self.send()
            && (if is_opt(self.pk(), off as int) { 1int } else { 0int }) + n_opt(self.pk(), self.rr_iterator.offset_next as int, self.rr_iterator.rrs_left as int)
                 <= (if self.rr_iterator.section is Additional { 1int } else { 0int }) ))
    }
    // postcondition of maybe_skip_opt_section (without the prophecy clauses)
    pub open spec fn skip_post(this: Self, r: Option<Self>) -> bool {
        (r matches Some(it) ==> it.wf() && it.rr_iterator.offset.is_some() && !is_opt(it.pk(), it.rr_iterator.offset.unwrap() as int)
            && it.pp() == this.pp() && it.rr_iterator.section == this.rr_iterator.section
            && it.visited() == this.visited() + (if is_opt(this.pk(), this.rr_iterator.offset.unwrap() as int) { 1int } else { 0int }))
        && (r is None <==> is_opt(this.pk(), this.rr_iterator.offset.unwrap() as int) && this.visited() == this.count())
    }
    pub proof fn lemma_wf_facts(&self)
        requires self.wf()
        ensures self.pp().packet.is_some(), self.pk().len() >= 12,
            0 <= self.sstart() <= self.pk().len(), self.sstart() <= self.send() <= self.pk().len(),
            recs_all(self.pk(), self.sstart(), self.count()),
            n_opt(self.pk(), self.sstart(), self.count()) <= (if self.rr_iterator.section is Additional { 1int } else { 0int }),
            self.count() > 0 ==> (match self.rr_iterator.section { Section::Answer => optu(self.pp().offset_answers),
                  Section::NameServers => optu(self.pp().offset_nameservers), _ => optu(self.pp().offset_additional) }) == Some(self.sstart()),
    {
        let p = self.pk();
        lemma_wf_bytes_facts(p);
    }
}

pub proof fn lemma_wf_bytes_facts(p: Seq<u8>)
    requires wf_bytes(p)
    ensures 12 <= q_end(p) <= p.len(),
        q_end(p) <= sec_start(p, Section::NameServers) <= sec_start(p, Section::Additional) <= p.len(),
        sec_start(p, Section::Answer) == q_end(p),
{
    if be16(p, 4) == 1 { lemma_name_end_bounds(p, 12); }
    lemma_sec_end_bounds(p, q_end(p), be16(p, 6) as int);
    lemma_sec_end_bounds(p, sec_start(p, Section::NameServers), be16(p, 8) as int);
    lemma_sec_end_bounds(p, sec_start(p, Section::Additional), be16(p, 10) as int);
}
