// ===== spec/clients_u9.rs: verified clients of the mutator contracts (not repo code).  They prove, from the contracts alone, that a cursor obtained
// from a walk meets the preconditions of set_raw_name / delete and that the packet object and the cursor satisfy their invariants again afterwards (C08, C11). =====
pub proof fn lemma_wf_eq(a: ParsedPacket, b: ParsedPacket)
    requires pp_eq(a, b), b.wf()
    ensures a.wf()
{ }
// what a valid cursor of a record section over a pointer-free packet designates, in terms of the pointer-free layout
pub proof fn lemma_resp_k(it: &ResponseIterator)
    requires it.wf(), it.rr_iterator.offset.is_some(), pf_packet(it.pk())
    ensures ({ let u = it.pk(); let si = sec_idx(it.rr_iterator.section); let k = it.visited() - 1; let off = it.rr_iterator.offset.unwrap() as int;
        1 <= si <= 3 && sec_of_idx(si) == it.rr_iterator.section && 0 <= k < sec_n(u, si) && off == pf_rrs_end(u, sec_st(u, si), k)
        && it.rr_iterator.name_end == pcs_end(u, off).unwrap() && it.rr_iterator.offset_next == pf_end(u, off)
        && it.rr_iterator.rrs_left == sec_n(u, si) - k - 1 && is_opt(u, off) == pf_is_opt(u, off) && sec_start(u, it.rr_iterator.section) == sec_st(u, si) }),
{
    hide(pf_rr); hide(pf_rrs); hide(pf_rrs_end); hide(pf_n_opt); hide(pf_packet); hide(opt_at); hide(pcs_walk); hide(rec_ok); hide(opts); hide(wf_bytes); hide(recs_all); hide(sec_end); hide(n_opt);
    let u = it.pk(); let si = sec_idx(it.rr_iterator.section); let k = it.visited() - 1; let st = sec_st(u, si); let n = sec_n(u, si);
    lemma_pf_wf_bytes(u);
    lemma_pf_packet_facts(u);
    lemma_pf_recs(u, st, n);
    lemma_opt_at_3(u, st, n, k, 1);
    lemma_pf_rec(u, pf_rrs_end(u, st, k));
}

// C08: "An iterator that changed a record's name still designates that record, and advancing it yields the record that followed"
fn client_set_name(it: &mut ResponseIterator, name: &[u8]) -> (r: Result<(), Error>)
    requires old(it).wf(), old(it).rr_iterator.offset.is_some(), !old(it).pp().maybe_compressed, pf_packet(old(it).pk()), old(it).pk().len() <= 0xffff,
        !is_opt(old(it).pk(), old(it).rr_iterator.offset.unwrap() as int),
    ensures
        r.is_ok() ==> final(it).wf() && pf_packet(final(it).pk()) && !final(it).pp().maybe_compressed
            && final(it).rr_iterator.offset == old(it).rr_iterator.offset && final(it).rr_iterator.rrs_left == old(it).rr_iterator.rrs_left
            && final(it).rr_iterator.section == old(it).rr_iterator.section,
        r.is_err() ==> final(it).wf() && final(it).pk() == old(it).pk(),
{
    hide(pf_rr); hide(pf_rrs); hide(pf_rrs_end); hide(pf_n_opt); hide(pf_packet); hide(opt_at); hide(pcs_walk); hide(rec_ok); hide(opts); hide(wf_bytes); hide(recs_all); hide(sec_end); hide(n_opt);
    hide(ParsedPacket::wf); hide(walk); hide(skip_walk);
    let ghost it0 = *it;
    let ghost pp0 = it.pp(); let ghost u = it.pk(); let ghost si = sec_idx(it.rr_iterator.section); let ghost k = it.visited() - 1;
    let ghost off = it.rr_iterator.offset.unwrap(); let ghost ne = it.rr_iterator.name_end as int; let ghost next = it.rr_iterator.offset_next as int;
    proof {
        lemma_resp_k(it);
        lemma_rec_cursor(pp0, si, k);
        assert(mid_ok::<ResponseIterator>(pp0, off, ne, next));
        assert forall|mid: ParsedPacket| #[trigger] after_unc(mid, pp0) implies mid_ok::<ResponseIterator>(mid, off, ne, next) by { lemma_mid_ok_eq::<ResponseIterator>(mid, pp0, off, ne, next); }
    }
    let r = it.set_raw_name(name);
    proof {
        if r.is_ok() {
            let nm = name@.subrange(0, name_end(name@, 0).unwrap());
            lemma_own_name(name@);
            let mid = choose|mid: ParsedPacket| #[trigger] after_unc(mid, pp0) && named(it.pp(), mid, off, ne, nm);
            lemma_wf_eq(mid, pp0);
            assert(pf_packet(mid.bytes()));
            let fin = it.pp(); let v = fin.bytes(); let st = sec_st(u, si); let n = sec_n(u, si);
            lemma_named_wf(fin, mid, si, k, nm);
            // the cursor invariant over the new bytes
            lemma_pf_wf_bytes(v); lemma_pf_wf_bytes(u);
            lemma_pf_packet_facts(v);
            lemma_pf_recs(v, st, n);
            lemma_pf_rec(v, off as int);
            let wl = nm.len() + (next - ne);
            lemma_pf_recs(v, off + wl, n - k - 1);
            lemma_pf_packet_facts(u);
            lemma_opt_at_3(u, st, n, k, 1);
            lemma_pf_recs(u, next, n - k - 1);
            assert(it.wf()) by { reveal(ParsedPacket::wf); }
        } else {
            reveal(ParsedPacket::wf);
        }
    }
    r
}

// C11: "each deletion removes exactly the record under the cursor, a second deletion through the same cursor reports a void record without touching anything"
fn client_delete(it: &mut ResponseIterator) -> (r: Result<(), Error>)
    requires old(it).wf(), old(it).rr_iterator.offset.is_some(), !old(it).pp().maybe_compressed, pf_packet(old(it).pk()), old(it).pk().len() <= 0xffff,
    ensures
        r.is_ok(),
        final(it).wf() && pf_packet(final(it).pk()) && !final(it).pp().maybe_compressed && final(it).rr_iterator.offset.is_none()
            && final(it).rr_iterator.section == old(it).rr_iterator.section && final(it).tfin() == old(it).tfin() && final(it).pk().len() < old(it).pk().len(),
        ({ let u = old(it).pk(); let v = final(it).pk(); let si = sec_idx(old(it).rr_iterator.section); let k = old(it).visited() - 1;
           let st = sec_st(u, si); let n = sec_n(u, si); let o = old(it).rr_iterator.offset.unwrap() as int;
           // the section now has n-1 records: the k records before the cursor where they were, the n-k-1 after it moved up to the cursor's position
           sec_st(v, si) == st && sec_n(v, si) == n - 1 && pf_rrs_end(v, st, k) == o && pf_rrs(v, st, n - 1) && pf_rrs(v, o, n - k - 1)
           && v.len() == u.len() - (old(it).rr_iterator.offset_next - o)
           && (forall|i: int| 12 <= i < o ==> v[i] == u[i])
           && (forall|i: int| o <= i < v.len() ==> v[i] == u[i + (old(it).rr_iterator.offset_next - o)]) }),
{
    hide(pf_rr); hide(pf_rrs); hide(pf_rrs_end); hide(pf_n_opt); hide(pf_packet); hide(opt_at); hide(pcs_walk); hide(rec_ok); hide(opts); hide(wf_bytes); hide(recs_all); hide(sec_end); hide(n_opt);
    hide(ParsedPacket::wf); hide(walk); hide(skip_walk);
    let ghost pp0 = it.pp(); let ghost u = it.pk(); let ghost si = sec_idx(it.rr_iterator.section); let ghost k = it.visited() - 1;
    let ghost off = it.rr_iterator.offset.unwrap(); let ghost ne = it.rr_iterator.name_end as int; let ghost next = it.rr_iterator.offset_next as int;
    proof {
        lemma_resp_k(it);
        lemma_rec_cursor(pp0, si, k);
        lemma_pf_rr_spec(u, off as int, SecT::Answer, false);
        assert(pcs_end(u, off as int).is_some() && ne + 10 <= u.len()) by { reveal(pf_rr); }
        assert forall|mid: ParsedPacket| #[trigger] after_unc(mid, pp0) implies del_ok(mid, off, ne, next, section_at(pp0, Some(off))) by { lemma_del_ok_eq(mid, pp0, off, ne, next, sec_of_idx(si)); }
    }
    let r = it.delete();
    proof {
        let s = sec_of_idx(si);
        let mid = choose|mid: ParsedPacket| #[trigger] after_unc(mid, pp0) && deleted(it.pp(), mid, off, next, s, s is Additional && be16(u, ne) == 41);
        lemma_wf_eq(mid, pp0);
        let fin = it.pp(); let v = fin.bytes();
        lemma_deleted_wf(fin, mid, si, k);
        assert(it.wf()) by { reveal(ParsedPacket::wf); }
    }
    // a second deletion through the same cursor
    let ghost it1 = *it;
    let r2 = it.delete();
    proof { assert(r2.is_err() && it.pp() == it1.pp() && it.rr_iterator.offset.is_none()); }
    r
}

// C08/C09: insertion of a pointer-free non-OPT record into a record section of a pointer-free packet keeps the object invariant;
// the record lands at the end of its section
fn client_insert(pp: &mut ParsedPacket, section: Section, rr: RR) -> (r: Result<(), Error>)
    requires old(pp).wf(), !old(pp).maybe_compressed, pf_packet(old(pp).bytes()), is_rsec(section),
        pf_rr(rr.packet@, 0), pf_end(rr.packet@, 0) == rr.packet@.len(), !pf_is_opt(rr.packet@, 0), rr.packet@.len() <= 0x10000,
    ensures
        final(pp).wf(), !final(pp).maybe_compressed, pf_packet(final(pp).bytes()),
        r.is_err() ==> final(pp).bytes() == old(pp).bytes(),
        r.is_ok() ==> ({ let u = old(pp).bytes(); let v = final(pp).bytes(); let si = sec_idx(section); let st = sec_st(u, si); let n = sec_n(u, si);
            final(pp).bytes().len() <= 8192 && sec_n(v, si) == n + 1 && sec_st(v, si) == st && pf_rrs_end(v, st, n) == pf_rrs_end(u, st, n)
            && pf_rr(v, pf_rrs_end(u, st, n)) && pf_end(v, pf_rrs_end(u, st, n)) == pf_rrs_end(u, st, n) + rr.packet@.len() }),
{
    hide(pf_rr); hide(pf_rrs); hide(pf_rrs_end); hide(pf_n_opt); hide(pf_packet); hide(opt_at); hide(pcs_walk); hide(rec_ok); hide(opts); hide(wf_bytes); hide(recs_all); hide(sec_end); hide(n_opt);
    hide(ParsedPacket::wf); hide(walk); hide(skip_walk); hide(inserted);
    let ghost pp0 = *pp; let ghost rrb = rr.packet@; let ghost si = sec_idx(section);
    proof { assert(unc_keeps_edns(pp0)); assert(!(section is Edns)); }
    let r = pp.insert_rr(section, rr);
    proof {
        if r.is_ok() {
            let mid = choose|mid: ParsedPacket| #[trigger] after_unc(mid, pp0) && inserted(*pp, mid, section, rrb);
            lemma_wf_eq(mid, pp0);
            assert(sec_n(mid.bytes(), si) < 0xffff) by { reveal(inserted); }
            lemma_inserted_wf(*pp, mid, si, rrb);
            assert(!pp.maybe_compressed) by { reveal(inserted); }
        } else {
            assert(pp_eq(*pp, pp0));
            lemma_wf_eq(*pp, pp0);
        }
    }
    r
}


// C11: a walk that deletes every record it is given terminates, and the emptied section reads as absent
fn client_delete_all_answers(pp: &mut ParsedPacket) -> (n: usize)
    requires old(pp).wf(), !old(pp).maybe_compressed, pf_packet(old(pp).bytes()), old(pp).bytes().len() <= 0xffff
    ensures final(pp).wf(), pf_packet(final(pp).bytes()), !final(pp).maybe_compressed,
        sec_n(final(pp).bytes(), 1) == 0, final(pp).offset_answers.is_none(), n == sec_n(old(pp).bytes(), 1),
{
    hide(pf_rr); hide(pf_rrs); hide(pf_rrs_end); hide(pf_n_opt); hide(pf_packet); hide(opt_at); hide(pcs_walk); hide(rec_ok); hide(opts); hide(wf_bytes); hide(recs_all); hide(sec_end); hide(n_opt);
    hide(ParsedPacket::wf); hide(walk); hide(skip_walk);
    let ghost cnt0 = sec_n(pp.bytes(), 1);
    let ghost fin = *final(pp);
    let mut n: usize = 0;
    let mut it = pp.into_iter_answer();
    while let Some(item) = it
        invariant
            n <= cnt0 <= 0xffff,
            it matches Some(i) ==> i.wf() && i.rr_iterator.offset.is_some() && i.rr_iterator.section is Answer && !i.pp().maybe_compressed && pf_packet(i.pk())
                && i.pk().len() <= 0xffff && sec_n(i.pk(), 1) == cnt0 - n && i.tfin() == fin,
            it is None ==> fin.wf() && pf_packet(fin.bytes()) && !fin.maybe_compressed && sec_n(fin.bytes(), 1) == 0 && n == cnt0,
        ensures fin.wf() && pf_packet(fin.bytes()) && !fin.maybe_compressed && sec_n(fin.bytes(), 1) == 0 && n == cnt0,
        decreases cnt0 - n
    {
        let mut item = item;
        proof { lemma_resp_k(&item); }
        let _ = client_delete(&mut item);
        n += 1;
        let ghost v = item.pk();
        proof {
            // no OPT record in the answer section: the restart yields a record whenever one is left
            reveal(ParsedPacket::wf); reveal(wf_bytes);
            if sec_count(v, Section::Answer) >= 1 { lemma_no_opt_at(v, sec_start(v, Section::Answer), sec_count(v, Section::Answer), 0); }
        }
        it = item.next();
    }
    proof { lemma_wf_offsets(fin); }
    n
}
