// ===== spec/clients_u9.rs: verified clients of the mutator contracts (not repo code).  They prove, from the contracts alone, that a cursor obtained
// from a walk meets the preconditions of set_raw_name / delete and that the packet object and the cursor satisfy their invariants again afterwards (C08, C11). =====
pub proof fn lemma_wf_eq(a: ParsedPacket, b: ParsedPacket)
    requires pp_eq(a, b), b.wf()
    ensures a.wf()
{ }
// what a valid cursor of a record section over a pointer-free packet designates, in terms of the pointer-free layout
pub proof fn lemma_resp_k(it: &ResponseIterator)
    requires it.wf(), it.rr_iterator.offset.is_some(), pf_packet(it.pk())
    ensures ({ let u = it.pk(); let si = sec_idx(it.rr_iterator.section); let k = it.visited() - 1; let off = it.rr_iterator.offset.unwrap() as int;
        1 <= si <= 3 && sec_of_idx(si) == it.rr_iterator.section && 0 <= k < sec_n(u, si) && off == pf_rrs_end(u, sec_st(u, si), k)
        && it.rr_iterator.name_end == pcs_end(u, off).unwrap() && it.rr_iterator.offset_next == pf_end(u, off)
        && it.rr_iterator.rrs_left == sec_n(u, si) - k - 1 && is_opt(u, off) == pf_is_opt(u, off) && sec_start(u, it.rr_iterator.section) == sec_st(u, si) }),
{
    hide(pf_rr); hide(pf_rrs); hide(pf_rrs_end); hide(pf_n_opt); hide(pf_packet); hide(opt_at); hide(pcs_walk); hide(rec_ok); hide(opts); hide(wf_bytes); hide(recs_all); hide(sec_end); hide(n_opt);
    let u = it.pk(); let si = sec_idx(it.rr_iterator.section); let k = it.visited() - 1; let st = sec_st(u, si); let n = sec_n(u, si);
    lemma_pf_wf_bytes(u);
    lemma_pf_packet_facts(u);
    lemma_pf_recs(u, st, n);
    lemma_opt_at_3(u, st, n, k, 1);
    lemma_pf_rec(u, pf_rrs_end(u, st, k));
}

// the state a resizing mutator works on: the entry state when the packet is pointer-free, its decompressed form otherwise.
// For a valid cursor on record k of record section si, this lemma discharges the trait-level preconditions of set_raw_name / delete / uncompress.
pub open spec fn cur_o(it: &ResponseIterator) -> usize {
    if it.pp().maybe_compressed { bmap(it.pk(), it.rr_iterator.offset.unwrap() as int).unwrap() as usize } else { it.rr_iterator.offset.unwrap() }
}
pub open spec fn cur_ne(it: &ResponseIterator, mid: ParsedPacket) -> int {
    if it.pp().maybe_compressed { rec_ne(mid.bytes(), cur_o(it) as int) } else { it.rr_iterator.name_end as int }
}
pub open spec fn cur_next(it: &ResponseIterator, mid: ParsedPacket) -> int {
    if it.pp().maybe_compressed { rec_end(mid.bytes(), cur_o(it) as int) } else { it.rr_iterator.offset_next as int }
}
pub open spec fn mut_ready(it: &ResponseIterator) -> bool {
    it.wf() && it.rr_iterator.offset.is_some() && it.pk().len() <= 0xffff
    && (if it.pp().maybe_compressed { wf_packet(it.pk()) ==> uncompress_spec(it.pk()).len() <= 0xffff } else { pf_packet(it.pk()) })
}
pub proof fn lemma_resp_pre(it: &ResponseIterator)
    requires mut_ready(it), it.pp().maybe_compressed ==> wf_packet(it.pk())
    ensures ({ let pp = it.pp(); let p = it.pk(); let off = it.rr_iterator.offset.unwrap() as int; let o = cur_o(it); let si = sec_idx(it.rr_iterator.section); let k = it.visited() - 1;
        pp.packet.is_some() && unc_keeps_edns(pp) && 1 <= si <= 3 && sec_of_idx(si) == it.rr_iterator.section && 0 <= k && it.rr_iterator.rrs_left == it.count() - k - 1
        && 0 <= it.rr_iterator.name_end && it.rr_iterator.name_end + 2 <= p.len()
        && section_at(pp, it.rr_iterator.offset) == it.rr_iterator.section && !opt_lt(it.rr_iterator.offset, pp.offset_question)
        && (pp.maybe_compressed ==> bmap(p, off).is_some() && 0 <= bmap(p, off).unwrap() <= uncompress_spec(p).len() && rec_ok(uncompress_spec(p), bmap(p, off).unwrap()))
        && (forall|mid: ParsedPacket| #[trigger] after_unc(mid, pp) ==> {
                let u = mid.bytes();
                mid.wf() && pf_packet(u) && !mid.maybe_compressed && u.len() <= 0xffff && k < sec_n(u, si) && sec_n(u, si) == it.count() && o == pf_rrs_end(u, sec_st(u, si), k) && pf_rr(u, o as int)
                && cur_ne(it, mid) == pcs_end(u, o as int).unwrap() && cur_next(it, mid) == pf_end(u, o as int)
                && pf_is_opt(u, o as int) == is_opt(p, off)
                && del_ok(mid, o, cur_ne(it, mid), cur_next(it, mid), it.rr_iterator.section)
                && (!is_opt(p, off) ==> mid_ok::<ResponseIterator>(mid, o, cur_ne(it, mid), cur_next(it, mid))) }) }),
{
    hide(pf_rr); hide(pf_rrs); hide(pf_rrs_end); hide(pf_n_opt); hide(pf_packet); hide(opt_at); hide(pcs_walk); hide(rec_ok); hide(opts); hide(wf_bytes); hide(recs_all); hide(sec_end); hide(n_opt);
    hide(ParsedPacket::wf); hide(walk); hide(skip_walk); hide(uncompress_spec); hide(bmap); hide(wf_packet);
    let pp = it.pp(); let p = it.pk(); let off = it.rr_iterator.offset.unwrap() as int; let si = sec_idx(it.rr_iterator.section); let k = it.visited() - 1; let o = cur_o(it);
    it.lemma_section();
    it.lemma_wf_facts();
    lemma_unc_keeps_edns(pp);
    assert(wf_bytes(p)) by { reveal(ParsedPacket::wf); }
    lemma_rec_bounds(p, off);
    if pp.maybe_compressed {
        let u = uncompress_spec(p);
        theorem_c05(p);
        lemma_bmap_rec(p, si, k);
        lemma_pf_packet_facts(u);
        lemma_opt_at_3(u, sec_st(u, si), sec_n(u, si), k, 1);
        lemma_pf_rec(u, o as int);
        assert forall|mid: ParsedPacket| #[trigger] after_unc(mid, pp) implies ({
                let u = mid.bytes();
                mid.wf() && pf_packet(u) && !mid.maybe_compressed && u.len() <= 0xffff && k < sec_n(u, si) && sec_n(u, si) == it.count() && o == pf_rrs_end(u, sec_st(u, si), k) && pf_rr(u, o as int)
                && cur_ne(it, mid) == pcs_end(u, o as int).unwrap() && cur_next(it, mid) == pf_end(u, o as int)
                && pf_is_opt(u, o as int) == is_opt(p, off)
                && del_ok(mid, o, cur_ne(it, mid), cur_next(it, mid), it.rr_iterator.section)
                && (!is_opt(p, off) ==> mid_ok::<ResponseIterator>(mid, o, cur_ne(it, mid), cur_next(it, mid))) }) by {
            lemma_rec_cursor(mid, si, k);
        }
    } else {
        lemma_resp_k(it);
        lemma_rec_cursor(pp, si, k);
        assert forall|mid: ParsedPacket| #[trigger] after_unc(mid, pp) implies ({
                let u = mid.bytes();
                mid.wf() && pf_packet(u) && !mid.maybe_compressed && u.len() <= 0xffff && k < sec_n(u, si) && sec_n(u, si) == it.count() && o == pf_rrs_end(u, sec_st(u, si), k) && pf_rr(u, o as int)
                && cur_ne(it, mid) == pcs_end(u, o as int).unwrap() && cur_next(it, mid) == pf_end(u, o as int)
                && pf_is_opt(u, o as int) == is_opt(p, off)
                && del_ok(mid, o, cur_ne(it, mid), cur_next(it, mid), it.rr_iterator.section)
                && (!is_opt(p, off) ==> mid_ok::<ResponseIterator>(mid, o, cur_ne(it, mid), cur_next(it, mid))) }) by {
            lemma_wf_eq(mid, pp);
            lemma_del_ok_eq(mid, pp, o, it.rr_iterator.name_end as int, it.rr_iterator.offset_next as int, sec_of_idx(si));
            if !is_opt(p, off) { lemma_mid_ok_eq::<ResponseIterator>(mid, pp, o, it.rr_iterator.name_end as int, it.rr_iterator.offset_next as int); }
        }
    }
}
// the cursor invariant over the bytes of `fin`, for a cursor placed on record k (not the OPT record) of section si, the record extending over wl bytes
pub proof fn lemma_cursor_wf(it: &ResponseIterator, si: int, k: int)
    requires it.pp().wf(), pf_packet(it.pk()), 1 <= si <= 3, sec_of_idx(si) == it.rr_iterator.section, 0 <= k < sec_n(it.pk(), si),
        ({ let v = it.pk(); let o = pf_rrs_end(v, sec_st(v, si), k);
           it.rr_iterator.offset == Some(o as usize) && it.rr_iterator.name_end == rec_ne(v, o) && it.rr_iterator.offset_next == rec_end(v, o)
           && it.rr_iterator.rrs_left == sec_n(v, si) - k - 1 }),
    ensures it.wf()
{
    hide(pf_rr); hide(pf_rrs); hide(pf_rrs_end); hide(pf_n_opt); hide(pf_packet); hide(opt_at); hide(pcs_walk); hide(rec_ok); hide(opts); hide(wf_bytes); hide(recs_all); hide(sec_end); hide(n_opt);
    hide(ParsedPacket::wf); hide(walk); hide(skip_walk);
    let v = it.pk(); let st = sec_st(v, si); let n = sec_n(v, si); let o = pf_rrs_end(v, st, k);
    lemma_pf_wf_bytes(v);
    lemma_pf_packet_facts(v);
    lemma_pf_recs(v, st, n);
    lemma_opt_at_3(v, st, n, k, 1);
    lemma_pf_rec(v, o);
    lemma_pf_recs(v, pf_end(v, o), n - k - 1);
    let vv = it.pp().packet.unwrap(); axiom_vec_len(&vv);
    assert(it.pp().packet.is_some()) by { reveal(ParsedPacket::wf); }
}

// C08: "An iterator that changed a record's name still designates that record, and advancing it yields the record that followed"
fn client_set_name(it: &mut ResponseIterator, name: &[u8]) -> (r: Result<(), Error>)
    requires mut_ready(old(it)), !is_opt(old(it).pk(), old(it).rr_iterator.offset.unwrap() as int),
    ensures
        r.is_ok() ==> final(it).wf() && pf_packet(final(it).pk()) && !final(it).pp().maybe_compressed
            && final(it).rr_iterator.offset.is_some() && final(it).rr_iterator.rrs_left == old(it).rr_iterator.rrs_left
            && final(it).rr_iterator.section == old(it).rr_iterator.section && final(it).count() == old(it).count(),
        // C09: "setting a name replaces only that record's owner name"; every other record keeps its bytes and its place in the order
        r.is_ok() ==> (exists|mid: ParsedPacket| #[trigger] after_unc(mid, old(it).pp()) && ({
            let u = mid.bytes(); let v = final(it).pk(); let si = sec_idx(old(it).rr_iterator.section); let k = old(it).visited() - 1;
            others_kept(u, v, si, k, 1, 1)
            && rec_bytes(v, sec_st(u, si), k) == name@.subrange(0, name_end(name@, 0).unwrap()) + u.subrange(cur_ne(old(it), mid), cur_next(old(it), mid)) })),
        final(it).tfin() == old(it).tfin(),
{
    hide(pf_rr); hide(pf_rrs); hide(pf_rrs_end); hide(pf_n_opt); hide(pf_packet); hide(opt_at); hide(pcs_walk); hide(rec_ok); hide(opts); hide(wf_bytes); hide(recs_all); hide(sec_end); hide(n_opt);
    hide(ParsedPacket::wf); hide(walk); hide(skip_walk); hide(uncompress_spec); hide(bmap); hide(wf_packet);
    let ghost it0 = *it;
    let ghost pp0 = it.pp(); let ghost si = sec_idx(it.rr_iterator.section); let ghost k = it.visited() - 1; let ghost o = cur_o(it);
    proof { assert(pp0.packet.is_some()) by { reveal(ParsedPacket::wf); } if pp0.maybe_compressed ==> wf_packet(pp0.bytes()) { lemma_resp_pre(it); } }
    let r = it.set_raw_name(name);
    proof {
        if r.is_ok() {
            let nm = name@.subrange(0, name_end(name@, 0).unwrap());
            lemma_own_name(name@);
            let mid = choose|mid: ParsedPacket| #[trigger] after_unc(mid, pp0) && named(it.pp(), mid, o, cur_ne(&it0, mid), nm);
            let u = mid.bytes(); let fin = it.pp(); let v = fin.bytes(); let st = sec_st(u, si); let n = sec_n(u, si);
            lemma_named_wf(fin, mid, si, k, nm);
            lemma_named_recs(fin, mid, si, k, nm);
            lemma_pf_rec(v, o as int);
            lemma_cursor_wf(it, si, k);
            lemma_pf_wf_bytes(v);
        }
    }
    r
}

// what one deletion through a valid cursor does to the bytes: mid = the (decompressed) packet it worked on, v = the result.
// The section then has n-1 records: the k records before the cursor where they were, the n-k-1 after it moved up to the cursor's position
pub open spec fn cut_post(it0: &ResponseIterator, mid: ParsedPacket, v: Seq<u8>) -> bool {
    let u = mid.bytes(); let si = sec_idx(it0.rr_iterator.section); let k = it0.visited() - 1; let st = sec_st(u, si); let n = sec_n(u, si);
    let o = cur_o(it0) as int; let next = cur_next(it0, mid);
    after_unc(mid, it0.pp()) && pf_packet(u) && n == it0.count() && 0 <= k < n && o == pf_rrs_end(u, st, k) && next == pf_rrs_end(u, st, k + 1)
    && sec_st(v, si) == st && sec_n(v, si) == n - 1 && pf_rrs_end(v, st, k) == o && pf_rrs(v, st, n - 1) && pf_rrs(v, o, n - k - 1)
    && v.len() == u.len() - (next - o) && o < next
    && (forall|i: int| 12 <= i < o ==> v[i] == u[i])
    && (forall|i: int| o <= i < v.len() ==> v[i] == u[i + (next - o)])
    // C09: every other record of the packet keeps its bytes; the records of this section keep their order
    && others_kept(u, v, si, k, 1, 0)
}
// C11: "each deletion removes exactly the record under the cursor, a second deletion through the same cursor reports a void record without touching anything"
fn client_delete(it: &mut ResponseIterator) -> (r: Result<(), Error>)
    requires mut_ready(old(it)), old(it).pp().maybe_compressed ==> wf_packet(old(it).pk()),
    ensures
        r.is_ok(),
        final(it).wf() && pf_packet(final(it).pk()) && !final(it).pp().maybe_compressed && final(it).rr_iterator.offset.is_none()
            && final(it).rr_iterator.section == old(it).rr_iterator.section && final(it).tfin() == old(it).tfin() && final(it).pk().len() <= 0xffff,
        final(it).count() == old(it).count() - 1,
        // exactly that record is cut out of the (decompressed) packet
        exists|mid: ParsedPacket| #[trigger] cut_post(old(it), mid, final(it).pk()),
{
    hide(pf_rr); hide(pf_rrs); hide(pf_rrs_end); hide(pf_n_opt); hide(pf_packet); hide(opt_at); hide(pcs_walk); hide(rec_ok); hide(opts); hide(wf_bytes); hide(recs_all); hide(sec_end); hide(n_opt);
    hide(ParsedPacket::wf); hide(walk); hide(skip_walk); hide(uncompress_spec); hide(bmap); hide(wf_packet);
    let ghost it0 = *it;
    let ghost pp0 = it.pp(); let ghost p = it.pk(); let ghost si = sec_idx(it.rr_iterator.section); let ghost k = it.visited() - 1; let ghost o = cur_o(it);
    let ghost ne0 = it.rr_iterator.name_end as int;
    proof { lemma_resp_pre(it); }
    let r = it.delete();
    let ghost midg: ParsedPacket = choose|mid: ParsedPacket| #[trigger] after_unc(mid, pp0) && deleted(it.pp(), mid, o, cur_next(&it0, mid), sec_of_idx(si), sec_of_idx(si) is Additional && be16(p, ne0) == 41);
    let ghost v1 = it.pk();
    proof {
        let s = sec_of_idx(si);
        let mid = midg;
        let fin = it.pp(); let v = fin.bytes(); let u = mid.bytes();
        assert(pf_is_opt(u, o as int) == (be16(p, ne0) == 41));
        lemma_deleted_wf(fin, mid, si, k);
        lemma_deleted_recs(fin, mid, si, k);
        lemma_pf_rr_spec(u, o as int, SecT::Answer, false);
        lemma_pf_wf_bytes(v);
        lemma_pf_packet_facts(u);
        lemma_opt_at_3(u, sec_st(u, si), sec_n(u, si), k, 1);
        assert(it.wf()) by { reveal(ParsedPacket::wf); }
        assert(cut_post(&it0, mid, v));
    }
    // a second deletion through the same cursor
    let ghost it1 = *it;
    let r2 = it.delete();
    proof { assert(r2.is_err() && it.pp() == it1.pp() && it.rr_iterator.offset.is_none()); assert(it.pk() == v1); assert(cut_post(old(it), midg, it.pk())); }
    r
}

// C08/C09: insertion of a pointer-free non-OPT record into a record section of a pointer-free packet keeps the object invariant;
// the record lands at the end of its section
fn client_insert(pp: &mut ParsedPacket, section: Section, rr: RR) -> (r: Result<(), Error>)
    requires old(pp).wf(), !old(pp).maybe_compressed, pf_packet(old(pp).bytes()), is_rsec(section),
        pf_rr(rr.packet@, 0), pf_end(rr.packet@, 0) == rr.packet@.len(), !pf_is_opt(rr.packet@, 0), rr.packet@.len() <= 0x10000,
    ensures
        final(pp).wf(), !final(pp).maybe_compressed, pf_packet(final(pp).bytes()),
        r.is_err() ==> final(pp).bytes() == old(pp).bytes(),
        r.is_ok() ==> ({ let u = old(pp).bytes(); let v = final(pp).bytes(); let si = sec_idx(section); let st = sec_st(u, si); let n = sec_n(u, si);
            final(pp).bytes().len() <= 8192 && sec_n(v, si) == n + 1 && sec_st(v, si) == st && pf_rrs_end(v, st, n) == pf_rrs_end(u, st, n)
            && pf_rr(v, pf_rrs_end(u, st, n)) && pf_end(v, pf_rrs_end(u, st, n)) == pf_rrs_end(u, st, n) + rr.packet@.len()
            // C09: "inserting appends the given record at the end of the chosen section"; every other record keeps its bytes and its place
            && others_kept(u, v, si, n, 0, 1) && rec_bytes(v, st, n) == rr.packet@ }),
{
    hide(pf_rr); hide(pf_rrs); hide(pf_rrs_end); hide(pf_n_opt); hide(pf_packet); hide(opt_at); hide(pcs_walk); hide(rec_ok); hide(opts); hide(wf_bytes); hide(recs_all); hide(sec_end); hide(n_opt);
    hide(ParsedPacket::wf); hide(walk); hide(skip_walk); hide(inserted);
    let ghost pp0 = *pp; let ghost rrb = rr.packet@; let ghost si = sec_idx(section);
    proof { assert(unc_keeps_edns(pp0)); assert(!(section is Edns)); }
    let r = pp.insert_rr(section, rr);
    proof {
        if r.is_ok() {
            let mid = choose|mid: ParsedPacket| #[trigger] after_unc(mid, pp0) && inserted(*pp, mid, section, rrb);
            lemma_wf_eq(mid, pp0);
            assert(sec_n(mid.bytes(), si) < 0xffff) by { reveal(inserted); }
            lemma_inserted_wf(*pp, mid, si, rrb);
            lemma_inserted_recs(*pp, mid, si, rrb);
            assert(!pp.maybe_compressed) by { reveal(inserted); }
        } else {
            assert(pp_eq(*pp, pp0));
            lemma_wf_eq(*pp, pp0);
        }
    }
    r
}


// C11: a walk that deletes every record it is given terminates, and the emptied section reads as absent (compressed or pointer-free packet)
fn client_delete_all_answers(pp: &mut ParsedPacket) -> (n: usize)
    requires old(pp).wf(), old(pp).bytes().len() <= 0xffff,
        (if old(pp).maybe_compressed { wf_packet(old(pp).bytes()) && uncompress_spec(old(pp).bytes()).len() <= 0xffff } else { pf_packet(old(pp).bytes()) }),
    ensures final(pp).wf(), n == sec_count(old(pp).bytes(), Section::Answer),
        n > 0 ==> pf_packet(final(pp).bytes()) && !final(pp).maybe_compressed,
        sec_count(final(pp).bytes(), Section::Answer) == 0, final(pp).offset_answers.is_none(),
{
    hide(pf_rr); hide(pf_rrs); hide(pf_rrs_end); hide(pf_n_opt); hide(pf_packet); hide(opt_at); hide(pcs_walk); hide(rec_ok); hide(opts); hide(wf_bytes); hide(recs_all); hide(sec_end); hide(n_opt);
    hide(walk); hide(skip_walk); hide(uncompress_spec); hide(bmap); hide(wf_packet);
    let ghost cnt0 = sec_count(pp.bytes(), Section::Answer);
    let ghost fin = *final(pp);
    let mut n: usize = 0;
    let mut it = pp.into_iter_answer();
    while let Some(item) = it
        invariant
            n <= cnt0 <= 0xffff,
            it matches Some(i) ==> mut_ready(&i) && i.rr_iterator.section is Answer && (i.pp().maybe_compressed ==> wf_packet(i.pk()))
                && i.count() == cnt0 - n && i.tfin() == fin,
            it is None ==> fin.wf() && sec_count(fin.bytes(), Section::Answer) == 0 && n == cnt0 && (n > 0 ==> pf_packet(fin.bytes()) && !fin.maybe_compressed),
        ensures fin.wf() && sec_count(fin.bytes(), Section::Answer) == 0 && n == cnt0 && (n > 0 ==> pf_packet(fin.bytes()) && !fin.maybe_compressed),
        decreases cnt0 - n
    {
        let mut item = item;
        proof { item.lemma_wf_facts(); }
        let _ = client_delete(&mut item);
        n += 1;
        let ghost v = item.pk();
        proof {
            // no OPT record in the answer section: the restart yields a record whenever one is left
            reveal(wf_bytes);
            if sec_count(v, Section::Answer) >= 1 { lemma_no_opt_at(v, sec_start(v, Section::Answer), sec_count(v, Section::Answer), 0); }
        }
        it = item.next();
    }
    n
}

// C08: renaming the question through the question cursor (compressed or pointer-free packet)
fn client_set_qname(it: &mut QuestionIterator, name: &[u8]) -> (r: Result<(), Error>)
    requires old(it).wf(), old(it).rr_iterator.offset.is_some(), old(it).pk().len() <= 0xffff,
        (if old(it).pp().maybe_compressed { wf_packet(old(it).pk()) ==> uncompress_spec(old(it).pk()).len() <= 0xffff } else { pf_packet(old(it).pk()) }),
    ensures
        r.is_ok() ==> final(it).wf() && pf_packet(final(it).pk()) && !final(it).pp().maybe_compressed && final(it).rr_iterator.offset == Some(12usize)
            && name_exp(final(it).pk(), 12) == name@.subrange(0, name_end(name@, 0).unwrap()),
        final(it).tfin() == old(it).tfin(),
{
    hide(pf_rr); hide(pf_rrs); hide(pf_rrs_end); hide(pf_n_opt); hide(pf_packet); hide(opt_at); hide(pcs_walk); hide(rec_ok); hide(opts); hide(wf_bytes); hide(recs_all); hide(sec_end); hide(n_opt);
    hide(ParsedPacket::wf); hide(walk); hide(skip_walk); hide(uncompress_spec); hide(bmap); hide(wf_packet); hide(exp);
    let ghost pp0 = it.pp(); let ghost p = it.pk();
    proof {
        assert(pp0.packet.is_some() && wf_bytes(p)) by { reveal(ParsedPacket::wf); }
        if pp0.maybe_compressed ==> wf_packet(p) {
            lemma_unc_keeps_edns(pp0);
            if pp0.maybe_compressed {
                let u = uncompress_spec(p);
                theorem_c05(p);
                lemma_bmap_q(p);
                lemma_un_pf_packet(p);
                assert(be16(u, 4) == 1) by { assert(u.subrange(0, 12)[4] == p.subrange(0, 12)[4] && u.subrange(0, 12)[5] == p.subrange(0, 12)[5]); }
                lemma_pcs_name_end(u, 12);
                assert(12 + name_exp(p, 12).len() + 4 <= u.len()) by { reveal(pf_packet); }
                assert forall|mid: ParsedPacket| #[trigger] after_unc(mid, pp0) implies mid_ok::<QuestionIterator>(mid, 12, QuestionIterator::tne_of(mid.bytes(), 12), QuestionIterator::tnext_of(mid.bytes(), 12)) by { lemma_q_cursor(mid); }
            } else {
                lemma_q_cursor(pp0);
                assert forall|mid: ParsedPacket| #[trigger] after_unc(mid, pp0) implies mid_ok::<QuestionIterator>(mid, 12, it.rr_iterator.name_end as int, it.rr_iterator.offset_next as int) by {
                    lemma_mid_ok_eq::<QuestionIterator>(mid, pp0, 12, it.rr_iterator.name_end as int, it.rr_iterator.offset_next as int); }
            }
        }
    }
    let r = it.set_raw_name(name);
    proof {
        if r.is_ok() {
            let nm = name@.subrange(0, name_end(name@, 0).unwrap());
            lemma_own_name(name@);
            let mid = choose|mid: ParsedPacket| #[trigger] after_unc(mid, pp0) && named(it.pp(), mid, 12, (if pp0.maybe_compressed { QuestionIterator::tne_of(mid.bytes(), 12) } else { old(it).rr_iterator.name_end as int }), nm);
            if !pp0.maybe_compressed { lemma_wf_eq(mid, pp0); }
            lemma_q_cursor(mid);
            lemma_q_named_wf(it.pp(), mid, nm);
            let v = it.pk();
            lemma_name_exp_id(v, 12);
            assert(v.subrange(12, 12 + nm.len() as int) =~= nm);
            assert(it.wf()) by { reveal(ParsedPacket::wf); }
        }
    }
    r
}

// C08 / C11 (question): deleting the question through the question cursor (compressed or pointer-free packet).  The object invariant holds again
// for the resulting bytes -- a packet without a question, which the parser's policy rejects (open known finding; the structural view is exact) --
// and a second delete through the same cursor is refused without touching anything
fn client_delete_question(it: &mut QuestionIterator) -> (r: Result<(), Error>)
    requires old(it).wf(), old(it).rr_iterator.offset.is_some(), old(it).pk().len() <= 0xffff,
        (if old(it).pp().maybe_compressed { wf_packet(old(it).pk()) && uncompress_spec(old(it).pk()).len() <= 0xffff } else { pf_packet(old(it).pk()) }),
    ensures
        r.is_ok(), final(it).pp().wf(), pf_packet(final(it).pk()), !final(it).pp().maybe_compressed, final(it).rr_iterator.offset.is_none(),
        be16(final(it).pk(), 4) == 0, final(it).pp().offset_question.is_none(), final(it).tfin() == old(it).tfin(),
{
    hide(pf_rr); hide(pf_rrs); hide(pf_rrs_end); hide(pf_n_opt); hide(pf_packet); hide(opt_at); hide(pcs_walk); hide(rec_ok); hide(opts); hide(wf_bytes); hide(recs_all); hide(sec_end); hide(n_opt);
    hide(ParsedPacket::wf); hide(walk); hide(skip_walk); hide(uncompress_spec); hide(bmap); hide(wf_packet); hide(exp);
    let ghost pp0 = it.pp(); let ghost p = it.pk();
    proof {
        assert(pp0.packet.is_some() && wf_bytes(p)) by { reveal(ParsedPacket::wf); }
        lemma_unc_keeps_edns(pp0);
        // the question cursor lies before every record section
        assert(section_at(pp0, Some(12usize)) is Question && pp0.offset_question == Some(12usize) && be16(p, 4) == 1) by { reveal(ParsedPacket::wf); reveal(wf_bytes); lemma_wf_bytes_facts(p); lemma_name_end_bounds(p, 12); }
        assert(!opt_lt(it.rr_iterator.offset, pp0.offset_question));
        if pp0.maybe_compressed {
            let u = uncompress_spec(p);
            theorem_c05(p);
            lemma_bmap_q(p);
            lemma_un_pf_packet(p);
            assert(be16(u, 4) == 1) by { assert(u.subrange(0, 12)[4] == p.subrange(0, 12)[4] && u.subrange(0, 12)[5] == p.subrange(0, 12)[5]); }
            lemma_pcs_name_end(u, 12);
            assert(12 + name_exp(p, 12).len() + 4 <= u.len()) by { reveal(pf_packet); }
            assert forall|mid: ParsedPacket| #[trigger] after_unc(mid, pp0) implies del_ok(mid, 12, QuestionIterator::tne_of(mid.bytes(), 12), QuestionIterator::tnext_of(mid.bytes(), 12), Section::Question) by {
                lemma_q_del_ok(mid); }
        } else {
            lemma_q_del_ok(pp0);
            assert(del_ok(pp0, 12, it.rr_iterator.name_end as int, it.rr_iterator.offset_next as int, Section::Question));
            assert forall|mid: ParsedPacket| #[trigger] after_unc(mid, pp0) implies del_ok(mid, 12, it.rr_iterator.name_end as int, it.rr_iterator.offset_next as int, Section::Question) by {
                lemma_del_ok_eq(mid, pp0, 12, it.rr_iterator.name_end as int, it.rr_iterator.offset_next as int, Section::Question); }
        }
    }
    let r = it.delete();
    proof {
        assert(r.is_ok());
        let mid = choose|mid: ParsedPacket| #[trigger] after_unc(mid, pp0) && deleted(it.pp(), mid, 12, (if pp0.maybe_compressed { QuestionIterator::tnext_of(mid.bytes(), 12) } else { old(it).rr_iterator.offset_next as int }), Section::Question, false);
        if !pp0.maybe_compressed { lemma_wf_eq(mid, pp0); }
        lemma_q_del_ok(mid);
        lemma_q_deleted_wf(it.pp(), mid);
    }
    let ghost it1 = *it;
    let r2 = it.delete();
    proof { assert(r2.is_err() && it.pp() == it1.pp() && it.rr_iterator.offset.is_none()); }
    r
}

// ---------------------------------------------------------------------------------------------------------------------------------
// C11, the general statement: a walk over the answer, the authority or the additional section that deletes an ARBITRARY subset of the records
// it is given (in the additional section the walk is never given the OPT record: into_iter_additional() and next() skip it, wherever it sits).
// `decide` has no contract, so the verifier must treat its answers as arbitrary (any subset, any order of answers on revisits).
#[verifier::external_body]
fn decide(it: &ResponseIterator) -> (d: bool) { unimplemented!() }

pub open spec fn ref_bytes(pp: ParsedPacket) -> Seq<u8> { if pp.maybe_compressed { uncompress_spec(pp.bytes()) } else { pp.bytes() } }
pub open spec fn increasing(cur: Seq<int>, n: int) -> bool {
    (forall|j: int| 0 <= j < cur.len() ==> 0 <= #[trigger] cur[j] < n) && (forall|i: int, j: int| 0 <= i < j < cur.len() ==> cur[i] < cur[j])
}
// the records currently in the answer section of v are, in order, the records cur[0], cur[1], .. of the reference packet u0
pub open spec fn holds_recs(v: Seq<u8>, u0: Seq<u8>, cur: Seq<int>, si: int) -> bool {
    pf_packet(v) && sec_st(v, si) == sec_st(u0, si) && sec_n(v, si) == cur.len()
    && forall|j: int| 0 <= j < cur.len() ==> #[trigger] rec_bytes(v, sec_st(u0, si), j) == rec_bytes(u0, sec_st(u0, si), cur[j])
}
pub open spec fn walk_sec(authority: bool, additional: bool) -> Section { if additional { Section::Additional } else if authority { Section::NameServers } else { Section::Answer } }
fn client_walk_delete(pp: &mut ParsedPacket, authority: bool, additional: bool) -> (res: (Ghost<Seq<int>>, Ghost<Set<int>>))
    requires old(pp).wf(), old(pp).bytes().len() <= 0xffff,
        (if old(pp).maybe_compressed { wf_packet(old(pp).bytes()) && uncompress_spec(old(pp).bytes()).len() <= 0xffff } else { pf_packet(old(pp).bytes()) }),
    ensures final(pp).wf(),
        ({ let u0 = ref_bytes(*old(pp)); let sec = walk_sec(authority, additional); let si = sec_idx(sec); let n0 = sec_count(old(pp).bytes(), sec); let cur = res.0@; let yielded = res.1@;
           // "afterwards the section holds exactly the survivors in their original order with a matching count"
           increasing(cur, n0) && sec_count(final(pp).bytes(), sec) == cur.len()
           && (cur.len() < n0 ==> holds_recs(final(pp).bytes(), u0, cur, si) && !final(pp).maybe_compressed)
           // "every surviving record is yielded at least once" (all of them but the OPT record, which these walks never show)
           && (forall|j: int| 0 <= j < cur.len() ==> yielded.contains(#[trigger] cur[j]) || is_opt(final(pp).bytes(), rec_start(final(pp).bytes(), sec_start(final(pp).bytes(), sec), j)))
           && (!additional ==> forall|j: int| 0 <= j < cur.len() ==> yielded.contains(#[trigger] cur[j]))
           // "an emptied section reads as absent"
           && (cur.len() == 0 ==> (if additional { final(pp).offset_additional.is_none() } else if authority { final(pp).offset_nameservers.is_none() } else { final(pp).offset_answers.is_none() })) }),
{
    hide(pf_rr); hide(pf_rrs); hide(pf_rrs_end); hide(pf_n_opt); hide(pf_packet); hide(opt_at); hide(pcs_walk); hide(rec_ok); hide(opts); hide(wf_bytes); hide(recs_all); hide(sec_end); hide(n_opt);
    hide(walk); hide(skip_walk); hide(uncompress_spec); hide(bmap); hide(wf_packet); hide(rec_bytes);
    let ghost pp0 = *pp; let ghost p0 = pp.bytes(); let ghost u0 = ref_bytes(*pp); let ghost sec = walk_sec(authority, additional); let ghost si = sec_idx(sec);
    let ghost n0 = sec_count(pp.bytes(), sec); let ghost st0 = sec_st(u0, si);
    let ghost fin = *final(pp);
    let ghost mut cur: Seq<int> = Seq::new(n0 as nat, |j: int| j);
    let ghost mut yielded: Set<int> = Set::empty();
    proof {
        if pp0.maybe_compressed { theorem_c05(p0); lemma_un_pf_packet(p0); assert(wf_bytes(p0)) by { reveal(ParsedPacket::wf); }
            assert(sec_n(u0, si) == n0) by { reveal(pf_packet); reveal(wf_bytes); assert(u0.subrange(0, 12)[6] == u0[6] && u0.subrange(0, 12)[7] == u0[7] && p0.subrange(0, 12)[6] == p0[6] && p0.subrange(0, 12)[7] == p0[7]
                && u0.subrange(0, 12)[8] == u0[8] && u0.subrange(0, 12)[9] == u0[9] && p0.subrange(0, 12)[8] == p0[8] && p0.subrange(0, 12)[9] == p0[9]
                && u0.subrange(0, 12)[10] == u0[10] && u0.subrange(0, 12)[11] == u0[11] && p0.subrange(0, 12)[10] == p0[10] && p0.subrange(0, 12)[11] == p0[11]); } }
    }
    let mut it = if additional { pp.into_iter_additional() } else if authority { pp.into_iter_nameservers() } else { pp.into_iter_answer() };
    proof {
        if let Some(i) = it {
            assert(wf_bytes(p0)) by { reveal(ParsedPacket::wf); }
            if !additional { reveal(wf_bytes); lemma_no_opt_at(p0, sec_start(p0, sec), sec_count(p0, sec), 0); }
            assert(rec_start(p0, sec_start(p0, sec), 0) == sec_start(p0, sec));
        }
    }
    while let Some(item) = it
        invariant
            increasing(cur, n0), n0 <= 0xffff, u0 == ref_bytes(pp0), p0 == pp0.bytes(), st0 == sec_st(u0, si), pf_packet(u0), sec_n(u0, si) == n0, sec == walk_sec(authority, additional), si == sec_idx(sec),
            it matches Some(i) ==> mut_ready(&i) && i.rr_iterator.section == sec && (i.pp().maybe_compressed ==> wf_packet(i.pk()))
                && i.count() == cur.len() && i.tfin() == fin
                && (if i.pp().maybe_compressed { i.pp() == pp0 && cur =~= Seq::new(n0 as nat, |j: int| j) } else { holds_recs(i.pk(), u0, cur, si) })
                && !is_opt(i.pk(), i.rr_iterator.offset.unwrap() as int)
                && (forall|j: int| 0 <= j < i.visited() - 1 ==> yielded.contains(#[trigger] cur[j]) || (additional && is_opt(i.pk(), rec_start(i.pk(), i.sstart(), j)))),
            it is None ==> fin.wf() && sec_count(fin.bytes(), sec) == cur.len()
                && (cur.len() < n0 ==> holds_recs(fin.bytes(), u0, cur, si) && !fin.maybe_compressed)
                && (forall|j: int| 0 <= j < cur.len() ==> yielded.contains(#[trigger] cur[j]) || (additional && is_opt(fin.bytes(), rec_start(fin.bytes(), sec_start(fin.bytes(), sec), j)))),
        ensures increasing(cur, n0), fin.wf(), sec_count(fin.bytes(), sec) == cur.len(),
                cur.len() < n0 ==> holds_recs(fin.bytes(), u0, cur, si) && !fin.maybe_compressed,
                forall|j: int| 0 <= j < cur.len() ==> yielded.contains(#[trigger] cur[j]) || (additional && is_opt(fin.bytes(), rec_start(fin.bytes(), sec_start(fin.bytes(), sec), j))),
        decreases cur.len(), (match it { Some(i) => i.count() - i.visited() + 1, None => 0int })
    {
        let mut item = item;
        let ghost k = item.visited() - 1;
        proof { item.lemma_wf_facts(); yielded = yielded.insert(cur[k]); }
        if decide(&item) {
            let ghost itb = item;
            let _ = client_delete(&mut item);
            proof {
                let mid = choose|mid: ParsedPacket| #[trigger] cut_post(&itb, mid, item.pk());
                let u = mid.bytes(); let v = item.pk(); let n = sec_n(u, si);
                assert(st0 == sec_st(u, si) && n == cur.len() && holds_recs(u, u0, cur, si)) by { reveal(rec_bytes); }
                lemma_pf_packet_facts(u);
                lemma_cut_recs(u, v, st0, n, k);
                let c2 = cur.remove(k);
                assert forall|j: int| 0 <= j < c2.len() implies #[trigger] rec_bytes(v, st0, j) == rec_bytes(u0, st0, c2[j]) by {
                    if j < k { assert(c2[j] == cur[j]); assert(rec_bytes(v, st0, j) == rec_bytes(u, st0, j)); }
                    else { assert(c2[j] == cur[j + 1]); assert(rec_bytes(v, st0, j) == rec_bytes(u, st0, j + 1)); }
                }
                assert(increasing(c2, n0)) by {
                    assert forall|j: int| 0 <= j < c2.len() implies 0 <= #[trigger] c2[j] < n0 by { if j < k { assert(c2[j] == cur[j]); } else { assert(c2[j] == cur[j + 1]); } }
                    assert forall|i: int, j: int| 0 <= i < j < c2.len() implies c2[i] < c2[j] by {
                        let a = if i < k { i } else { i + 1 }; let b = if j < k { j } else { j + 1 };
                        assert(c2[i] == cur[a] && c2[j] == cur[b]);
                    }
                }
                cur = c2;
            }
        }
        let ghost v = item.pk();
        proof {
            // no OPT record in the answer / authority section: next() never skips, and yields a record whenever one is left; in the additional
            // section the only record it skips, and the only one that may be left when it returns None, is the OPT record
            assert(wf_bytes(v)) by { reveal(ParsedPacket::wf); }
            reveal(wf_bytes);
            if !additional && item.visited() < item.count() { lemma_no_opt_at(v, sec_start(v, sec), sec_count(v, sec), item.visited()); }
        }
        it = item.next();
    }
    proof { if cur.len() == 0 { reveal(ParsedPacket::wf); } }
    (Ghost(cur), Ghost(yielded))
}

// ---------------------------------------------------------------------------------------------------------------------------------
// C08/C09: the in-place field setters on a pointer-free packet (on a packet that still holds pointers another name may read the
// written bytes: open known finding)
fn client_set_ttl(it: &mut ResponseIterator, ttl: u32)
    requires old(it).wf(), old(it).rr_iterator.offset.is_some(), !old(it).pp().maybe_compressed, pf_packet(old(it).pk()),
        !is_opt(old(it).pk(), old(it).rr_iterator.offset.unwrap() as int),
    ensures final(it).wf(), pf_packet(final(it).pk()), !final(it).pp().maybe_compressed, final(it).tfin() == old(it).tfin(),
        final(it).rr_iterator.offset == old(it).rr_iterator.offset && final(it).rr_iterator.rrs_left == old(it).rr_iterator.rrs_left,
        ({ let u = old(it).pk(); let v = final(it).pk(); let si = sec_idx(old(it).rr_iterator.section); let k = old(it).visited() - 1; let ne = old(it).rr_iterator.name_end as int;
           // "TTL and address setters change only that field of that record"
           others_kept(u, v, si, k, 1, 1) && v == u.subrange(0, ne + 4) + b32(ttl) + u.subrange(ne + 8, u.len() as int) }),
{
    hide(pf_rr); hide(pf_rrs); hide(pf_rrs_end); hide(pf_n_opt); hide(pf_packet); hide(opt_at); hide(pcs_walk); hide(rec_ok); hide(opts); hide(wf_bytes); hide(recs_all); hide(sec_end); hide(n_opt);
    hide(ParsedPacket::wf); hide(walk); hide(skip_walk); hide(rec_bytes);
    let ghost pp0 = it.pp(); let ghost u = it.pk(); let ghost si = sec_idx(it.rr_iterator.section); let ghost k = it.visited() - 1;
    let ghost o = it.rr_iterator.offset.unwrap() as int; let ghost ne = it.rr_iterator.name_end as int;
    proof {
        lemma_resp_k(it);
        assert(pp0.packet.is_some()) by { reveal(ParsedPacket::wf); }
        lemma_pf_packet_facts(u); lemma_opt_at_3(u, sec_st(u, si), sec_n(u, si), k, 1);
        lemma_pf_rr_spec(u, o, SecT::Answer, false);
        assert(pcs_end(u, o).is_some() && ne + 10 <= pf_end(u, o)) by { reveal(pf_rr); }
    }
    it.set_rr_ttl(ttl);
    proof {
        let fin = it.pp(); let v = fin.bytes();
        assert(v.len() == u.len());
        assert forall|i: int| 0 <= i < u.len() && !(ne + 4 <= i < ne + 8) implies v[i] == u[i] by { }
        lemma_field_wf(fin, pp0, si, k, ne + 4, ne + 8);
        lemma_pf_rec(v, o);
        lemma_cursor_wf(it, si, k);
    }
}
fn client_set_ip(it: &mut ResponseIterator, ip: &IpAddr) -> (r: Result<(), Error>)
    requires old(it).wf(), old(it).rr_iterator.offset.is_some(), !old(it).pp().maybe_compressed, pf_packet(old(it).pk()),
        !is_opt(old(it).pk(), old(it).rr_iterator.offset.unwrap() as int),
    ensures final(it).wf(), pf_packet(final(it).pk()), !final(it).pp().maybe_compressed, final(it).tfin() == old(it).tfin(),
        final(it).rr_iterator.offset == old(it).rr_iterator.offset && final(it).rr_iterator.rrs_left == old(it).rr_iterator.rrs_left,
        r.is_err() ==> final(it).pk() == old(it).pk(),
        r.is_ok() ==> others_kept(old(it).pk(), final(it).pk(), sec_idx(old(it).rr_iterator.section), old(it).visited() - 1, 1, 1),
{
    hide(pf_rr); hide(pf_rrs); hide(pf_rrs_end); hide(pf_n_opt); hide(pf_packet); hide(opt_at); hide(pcs_walk); hide(rec_ok); hide(opts); hide(wf_bytes); hide(recs_all); hide(sec_end); hide(n_opt);
    hide(ParsedPacket::wf); hide(walk); hide(skip_walk); hide(rec_bytes);
    let ghost pp0 = it.pp(); let ghost u = it.pk(); let ghost si = sec_idx(it.rr_iterator.section); let ghost k = it.visited() - 1;
    let ghost o = it.rr_iterator.offset.unwrap() as int; let ghost ne = it.rr_iterator.name_end as int;
    proof {
        lemma_resp_k(it);
        assert(pp0.packet.is_some()) by { reveal(ParsedPacket::wf); }
        lemma_pf_packet_facts(u); lemma_opt_at_3(u, sec_st(u, si), sec_n(u, si), k, 1);
        lemma_pf_rr_spec(u, o, SecT::Answer, false);
        assert(pcs_end(u, o).is_some() && ne + 10 + be16(u, ne + 8) == pf_end(u, o) && (be16(u, ne) == 1 ==> be16(u, ne + 8) == 4) && (be16(u, ne) == 28 ==> be16(u, ne + 8) == 16)) by { reveal(pf_rr); }
    }
    // the length of an address is known to the verifier only through `octets()` (assumed specification of std)
    match ip { IpAddr::V4(a) => { let o4 = a.octets(); proof { assert(v4_octets(*a).len() == 4); } } IpAddr::V6(a) => { let o6 = a.octets(); proof { assert(v6_octets(*a).len() == 16); } } }
    let r = it.set_rr_ip(ip);
    proof {
        let fin = it.pp(); let v = fin.bytes();
        if r.is_ok() {
            let w: int = if be16(u, ne) == 1 { 4 } else { 16 };
            assert(v.len() == u.len());
            assert forall|i: int| 0 <= i < u.len() && !(ne + 10 <= i < ne + 10 + w) implies v[i] == u[i] by { }
            lemma_field_wf(fin, pp0, si, k, ne + 10, ne + 10 + w);
            lemma_pf_rec(v, o);
            lemma_cursor_wf(it, si, k);
        } else {
            assert(it.wf()) by { reveal(ParsedPacket::wf); }
        }
    }
    r
}
// header setters (transaction id, flags word): bytes 0..3 only
fn client_set_header(pp: &mut ParsedPacket, tid: u16, flags: u32, rcode: u8, opcode: u8, qr: bool)
    requires old(pp).wf(), !old(pp).maybe_compressed, pf_packet(old(pp).bytes())
    ensures final(pp).wf(), !final(pp).maybe_compressed, pf_packet(final(pp).bytes()),
        // "untargeted header fields and the EDNS data stay equal", every record keeps its bytes
        forall|i: int| 4 <= i < old(pp).bytes().len() ==> final(pp).bytes()[i] == old(pp).bytes()[i],
        forall|sj: int, j: int| 1 <= sj <= 3 && 0 <= j < sec_n(old(pp).bytes(), sj) ==> #[trigger] rec_bytes(final(pp).bytes(), sec_st(final(pp).bytes(), sj), j) == rec_bytes(old(pp).bytes(), sec_st(old(pp).bytes(), sj), j),
{
    hide(pf_rr); hide(pf_rrs); hide(pf_rrs_end); hide(pf_n_opt); hide(pf_packet); hide(opt_at); hide(pcs_walk); hide(rec_ok); hide(opts); hide(wf_bytes); hide(recs_all); hide(sec_end); hide(n_opt);
    hide(ParsedPacket::wf); hide(walk); hide(skip_walk); hide(rec_bytes);
    let ghost pp0 = *pp; let ghost u = pp.bytes();
    proof { assert(pp0.has_hdr()) by { reveal(ParsedPacket::wf); reveal(wf_bytes); } }
    pp.set_tid(tid);
    pp.set_flags(flags);
    pp.set_rcode(rcode);
    pp.set_opcode(opcode);
    pp.set_response(qr);
    proof {
        let v = pp.bytes();
        assert(v.len() == u.len());
        assert forall|i: int| 4 <= i < u.len() implies v[i] == u[i] by { }
        lemma_hdr_wf(*pp, pp0);
    }
}
