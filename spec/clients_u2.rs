// ===== spec/clients_u2.rs: verified clients of the reader contracts (not repo code).  Each is the repo's own iteration idiom
// and proves, from the contracts alone, that a walk visits exactly the records present, in wire order (C03). =====
pub proof fn lemma_no_opt_at(p: Seq<u8>, s: int, n: int, k: int)
    requires n_opt(p, s, n) == 0, 0 <= k < n
    ensures !is_opt(p, rec_start(p, s, k))
    decreases k
{
    lemma_n_opt_nonneg(p, rec_end(p, s), n - 1);
    if k > 0 { lemma_no_opt_at(p, rec_end(p, s), n - 1, k - 1); }
}

// OPT-skipping walk over the answer section: every record is visited, record k at offset rec_start(k)
fn client_walk_answers(pp: &mut ParsedPacket) -> (n: usize)
    requires old(pp).wf()
    ensures n == sec_count(old(pp).bytes(), Section::Answer)
{
    let ghost p = pp.bytes();
    let ghost s = sec_start(p, Section::Answer);
    let ghost cnt = sec_count(p, Section::Answer);
    let mut n: usize = 0;
    let mut it = pp.into_iter_answer();
    while let Some(item) = it
        invariant
            wf_bytes(p), s == sec_start(p, Section::Answer), cnt == sec_count(p, Section::Answer), cnt <= 65535, n <= cnt,
            it matches Some(i) ==> i.wf() && i.rr_iterator.offset.is_some() && i.pk() == p && i.rr_iterator.section is Answer && i.visited() == n + 1
                && i.rr_iterator.offset == Some(rec_start(p, s, n as int) as usize),
            it is None ==> n == cnt,
        ensures n == cnt,
        decreases cnt - n, (if it.is_some() { 1int } else { 0int })
    {
        proof {
            if item.visited() < item.count() { lemma_no_opt_at(p, s, cnt, item.visited()); }
            lemma_rec_start_step(p, s, n as int);
        }
        n += 1;
        it = item.next();
    }
    n
}

// walk over the additional section including the OPT record: exactly arcount records
fn client_walk_additional_all(pp: &mut ParsedPacket) -> (n: usize)
    requires old(pp).wf()
    ensures n == sec_count(old(pp).bytes(), Section::Additional)
{
    let ghost p = pp.bytes();
    let ghost s = sec_start(p, Section::Additional);
    let ghost cnt = sec_count(p, Section::Additional);
    let mut n: usize = 0;
    let mut it = pp.into_iter_additional_including_opt();
    while let Some(item) = it
        invariant
            s == sec_start(p, Section::Additional), cnt == sec_count(p, Section::Additional), cnt <= 65535, n <= cnt,
            it matches Some(i) ==> i.wf() && i.rr_iterator.offset.is_some() && i.pk() == p && i.rr_iterator.section is Additional && i.visited() == n + 1
                && i.rr_iterator.offset == Some(rec_start(p, s, n as int) as usize),
            it is None ==> n == cnt,
        ensures n == cnt,
        decreases cnt - n, (if it.is_some() { 1int } else { 0int })
    {
        n += 1;
        it = item.next_including_opt();
    }
    n
}

// C03: the section accessor agrees with the section being walked
fn client_current_section(it: &ResponseIterator) -> (r: Result<Section, Error>)
    requires it.wf(), it.rr_iterator.offset.is_some()
    ensures r matches Ok(s) && s == it.rr_iterator.section
{
    proof { it.lemma_section(); }
    it.current_section()
}
