// ===== spec/crt.rs: decompressing a message that carries the input's message gives back the input up to name case (C06, last clause) =====
// record k of two runs related by recs_ci
pub proof fn lemma_recs_ci_at(out: Seq<u8>, so: int, p: Seq<u8>, si: int, n: int, k: int)
    requires recs_ci(out, so, p, si, n), 0 <= k < n
    ensures rec_ci(out, rec_start(out, so, k), p, pf_rrs_end(p, si, k))
    decreases k
{ if k > 0 { lemma_recs_ci_at(out, rec_end(out, so), p, pf_end(p, si), n - 1, k - 1); } }
pub proof fn lemma_recs_ci_from(u: Seq<u8>, b: int, p: Seq<u8>, si: int, n: int)
    requires n >= 0, forall|k: int| 0 <= k < n ==> rec_ci(u, #[trigger] rec_start(u, b, k), p, pf_rrs_end(p, si, k))
    ensures recs_ci(u, b, p, si, n)
    decreases n
{
    if n > 0 {
        assert(rec_start(u, b, 0) == b);
        assert(pf_rrs_end(p, si, 0) == si);
        assert forall|k: int| 0 <= k < n - 1 implies rec_ci(u, #[trigger] rec_start(u, rec_end(u, b), k), p, pf_rrs_end(p, pf_end(p, si), k)) by {
            assert(rec_start(u, b, k + 1) == rec_start(u, rec_end(u, b), k));
            assert(pf_rrs_end(p, si, k + 1) == pf_rrs_end(p, pf_end(p, si), k));
        }
        lemma_recs_ci_from(u, rec_end(u, b), p, pf_end(p, si), n - 1);
    }
}
// the data of one record: c has the record's fixed part at ho, p at ne, and u holds un_rd(c, ho) right after a copy of c's fixed part with RDLENGTH rewritten
pub proof fn lemma_un_rd_ci(c: Seq<u8>, ho: int, u: Seq<u8>, une: int, p: Seq<u8>, ne: int)
    requires 0 <= ho, ho + 10 + be16(c, ho + 8) <= c.len(), rd_ok(c, ho), rd_ci(c, ho, p, ne), pf_rd_ok(p, ne), 0 <= ne, ne + 10 + be16(p, ne + 8) <= p.len(),
        0 <= une, une + 10 + un_rd(c, ho).len() <= u.len(), forall|i: int| 0 <= i < un_rd(c, ho).len() ==> #[trigger] u[une + 10 + i] == un_rd(c, ho)[i],
        u.subrange(une, une + 8) == c.subrange(ho, ho + 8), be16(u, une + 8) == un_rd(c, ho).len(), pf_rd_ok(u, une),
    ensures rd_ci(u, une, p, ne), un_rd(c, ho).len() == be16(p, ne + 8)
{
    hide(walk); hide(exp); hide(opts); hide(plain_walk); hide(pcs_walk);
    let t = be16(c, ho); let l2 = be16(c, ho + 8) as int; let d2 = ho + 10;
    let l = be16(p, ne + 8) as int; let d = ne + 10;
    let rd = un_rd(c, ho); let ud = une + 10;
    assert(t == be16(p, ne)) by { assert(c.subrange(ho, ho + 8)[0] == p.subrange(ne, ne + 8)[0] && c.subrange(ho, ho + 8)[1] == p.subrange(ne, ne + 8)[1]); }
    assert(be16(u, une) == t) by { assert(u.subrange(une, une + 8)[0] == c.subrange(ho, ho + 8)[0] && u.subrange(une, une + 8)[1] == c.subrange(ho, ho + 8)[1]);
        assert(u.subrange(une, une + 8)[0] == u[une] && u.subrange(une, une + 8)[1] == u[une + 1] && c.subrange(ho, ho + 8)[0] == c[ho] && c.subrange(ho, ho + 8)[1] == c[ho + 1]); }
    if t == 2 || t == 5 || t == 12 {
        lemma_name_exp_id(u, ud);
        assert(u.subrange(ud, ud + rd.len()) =~= rd) by { assert forall|i: int| 0 <= i < rd.len() implies #[trigger] u.subrange(ud, ud + rd.len())[i] == rd[i] by { assert(u[une + 10 + i] == rd[i]); } }
    } else if t == 15 {
        let x = name_exp(c, d2 + 2);
        assert(rd == c.subrange(d2, d2 + 2) + x);
        lemma_name_exp_id(u, ud + 2);
        assert(u.subrange(ud + 2, ud + rd.len()) =~= x) by { assert forall|i: int| 0 <= i < x.len() implies u[ud + 2 + i] == x[i] by { assert(rd[2 + i] == x[i]); assert(u[une + 10 + (2 + i)] == rd[2 + i]); } }
        assert(u.subrange(ud, ud + 2) =~= c.subrange(d2, d2 + 2)) by { assert(u[une + 10 + 0] == rd[0] && u[une + 10 + 1] == rd[1]); }
    } else if t == 6 {
        let m1 = name_end(c, d2).unwrap(); let m2 = name_end(c, m1).unwrap();
        let x1 = name_exp(c, d2); let x2 = name_exp(c, m1);
        let n1 = pcs_end(p, d).unwrap(); let n2 = pcs_end(p, n1).unwrap();
        lemma_name_end_bounds(c, d2); lemma_name_end_bounds(c, m1);
        lemma_name_exp_valid(c, d2); lemma_name_exp_valid(c, m1);
        lemma_pcs_bounds(p, d, 0); lemma_pcs_bounds(p, n1, 0);
        assert(rd == x1 + x2 + c.subrange(m2, m2 + 20));
        assert forall|i: int| 0 <= i < x1.len() implies x1[i] == u[i - 0 + ud] by { assert(rd[i] == x1[i]); assert(u[une + 10 + i] == rd[i]); }
        lemma_pcs_shift(x1, 0, u, ud, 0);
        let u1 = ud + x1.len();
        assert forall|i: int| 0 <= i < x2.len() implies x2[i] == u[i - 0 + u1] by { assert(rd[x1.len() + i] == x2[i]); assert(u[une + 10 + (x1.len() + i)] == rd[x1.len() + i]); }
        lemma_pcs_shift(x2, 0, u, u1, 0);
        let u2 = u1 + x2.len();
        lemma_name_exp_id(u, ud); lemma_name_exp_id(u, u1);
        assert(u.subrange(ud, u1) =~= x1);
        assert(u.subrange(u1, u2) =~= x2);
        assert(u.subrange(u2, u2 + 20) =~= c.subrange(m2, m2 + 20)) by {
            assert forall|i: int| 0 <= i < 20 implies #[trigger] u.subrange(u2, u2 + 20)[i] == c.subrange(m2, m2 + 20)[i] by { assert(rd[x1.len() + x2.len() + i] == c.subrange(m2, m2 + 20)[i]); assert(u[une + 10 + (x1.len() + x2.len() + i)] == rd[x1.len() + x2.len() + i]); }
        }
    } else {
        assert(rd == c.subrange(d2, d2 + l2));
        assert(u.subrange(ud, ud + l) =~= c.subrange(d2, d2 + l)) by { assert forall|i: int| 0 <= i < l implies #[trigger] u.subrange(ud, ud + l)[i] == c.subrange(d2, d2 + l)[i] by { assert(u[une + 10 + i] == rd[i]); } }
    }
}
// one record: if the record of c at so carries the data of the pointer-free record of p at si, so does its decompressed form, and it has p's length
pub proof fn lemma_un_rec_ci(c: Seq<u8>, so: int, u: Seq<u8>, b: int, p: Seq<u8>, si: int)
    requires rec_ok(c, so), rec_ci(c, so, p, si), pf_rr(p, si), 0 <= b, b + un_rr(c, so).len() <= u.len(),
        forall|i: int| 0 <= i < un_rr(c, so).len() ==> u[b + i] == un_rr(c, so)[i],
    ensures rec_ci(u, b, p, si), un_rr(c, so).len() == pf_end(p, si) - si
{
    hide(walk); hide(exp); hide(opts); hide(plain_walk); hide(pcs_walk); hide(rd_ci); hide(un_rd); hide(rd_ok); hide(pf_rd_ok);
    let ho = rec_ne(c, so);
    let ne = pcs_end(p, si).unwrap();
    let nm = name_exp(c, so); let rd = un_rd(c, ho); let w = un_rr(c, so); let nl = nm.len() as int;
    lemma_un_rr_pf(c, so, u, b);
    lemma_rec_bounds(c, so); lemma_un_rd_len(c, so);
    lemma_pf_rec(p, si); lemma_rec_bounds(p, si); lemma_pf_rd(p, si); lemma_pf_rd(u, b);
    // owner name
    lemma_name_exp_id(u, b);
    assert(u.subrange(b, b + nl) =~= nm) by { assert forall|i: int| 0 <= i < nl implies u[b + i] == nm[i] by { assert(w[i] == nm[i]); } }
    let une = b + nl;
    assert(nl == ne - si);
    // fixed fields
    assert(w.len() == nl + 10 + rd.len());
    assert(u.subrange(une, une + 8) =~= c.subrange(ho, ho + 8)) by {
        assert forall|i: int| 0 <= i < 8 implies #[trigger] u.subrange(une, une + 8)[i] == c.subrange(ho, ho + 8)[i] by { assert(w[nl + i] == c.subrange(ho, ho + 8)[i]); assert(u[b + (nl + i)] == w[nl + i]); }
    }
    assert forall|i: int| 0 <= i < rd.len() implies #[trigger] u[une + 10 + i] == rd[i] by { assert(w[nl + 10 + i] == rd[i]); assert(u[b + (nl + 10 + i)] == w[nl + 10 + i]); }
    lemma_un_rd_ci(c, ho, u, une, p, ne);
}
// one run of records
pub proof fn lemma_un_recs_ci(c: Seq<u8>, s: int, n: int, u: Seq<u8>, b: int, p: Seq<u8>, si: int)
    requires recs_all(c, s, n), 0 <= s <= c.len(), n >= 0, 0 <= b, b + un_rrs(c, s, n).len() <= u.len(),
        forall|i: int| 0 <= i < un_rrs(c, s, n).len() ==> u[b + i] == un_rrs(c, s, n)[i],
        pf_rrs(p, si, n),
        forall|k: int| 0 <= k < n ==> rec_ci(c, #[trigger] rec_start(c, s, k), p, pf_rrs_end(p, si, k)),
    ensures forall|k: int| 0 <= k < n ==> rec_ci(u, b + (#[trigger] un_rrs(c, s, k)).len(), p, pf_rrs_end(p, si, k)),
        un_rrs(c, s, n).len() == pf_rrs_end(p, si, n) - si,
    decreases n
{
    if n > 0 {
        let pre = un_rrs(c, s, n - 1); let o = rec_start(c, s, n - 1); let w = un_rr(c, o);
        lemma_recs_prefix(c, s, n, n - 1);
        lemma_rec_start_bounds(c, s, n, n - 1);
        assert(un_rrs(c, s, n) == pre + w);
        assert forall|i: int| 0 <= i < pre.len() implies u[b + i] == pre[i] by { assert(un_rrs(c, s, n)[i] == pre[i]); }
        lemma_pf_rrs_prefix(p, si, n, n - 1);
        lemma_un_recs_ci(c, s, n - 1, u, b, p, si);
        let b2 = b + pre.len();
        assert forall|i: int| 0 <= i < w.len() implies u[b2 + i] == w[i] by { assert(un_rrs(c, s, n)[pre.len() + i] == w[i]); assert(u[b + (pre.len() + i)] == un_rrs(c, s, n)[pre.len() + i]); }
        lemma_pf_rrs_last(p, si, n);
        lemma_un_rec_ci(c, o, u, b2, p, pf_rrs_end(p, si, n - 1));
        assert forall|k: int| 0 <= k < n implies rec_ci(u, b + (#[trigger] un_rrs(c, s, k)).len(), p, pf_rrs_end(p, si, k)) by { }
    } else { reveal_with_fuel(pf_rrs_end, 1); }
}
// C06: "decompressing the result gives back the input up to name case" -- for every accepted c that carries the message of the accepted
// pointer-free p (which is what compress(p) is proved to return), the specified result of decompression is accepted, pointer-free, exactly as
// long as p, and carries p's message: since both are pointer-free, that is equality of the bytes up to the case of the letters inside names
pub proof fn theorem_c06_roundtrip(c: Seq<u8>, p: Seq<u8>)
    requires wf_packet(c), wf_packet(p), pf_packet(p), msg_ci(c, p)
    ensures ({ let u = uncompress_spec(c); pf_packet(u) && wf_packet(u) && u.len() == p.len() && msg_ci(u, p) })
{
    hide(walk); hide(exp); hide(opts); hide(plain_walk); hide(pcs_walk); hide(rr_spec); hide(rrs); hide(rec_ci); hide(un_rr); hide(rec_ok); hide(pf_rr);
    let u = uncompress_spec(c);
    lemma_wf_packet_bytes(c); lemma_wf_bytes_facts(c);
    lemma_wf_packet_bytes(p); lemma_wf_bytes_facts(p); lemma_pf_wf_bytes(p);
    lemma_un_pf_packet(c); lemma_un_accepted(c); lemma_pf_wf_bytes(u);
    let sa = sec_start(c, Section::Answer); let sn = sec_start(c, Section::NameServers); let sr = sec_start(c, Section::Additional);
    let pa = sec_start(p, Section::Answer); let pn = sec_start(p, Section::NameServers); let pr = sec_start(p, Section::Additional);
    let an = be16(p, 6) as int; let ns = be16(p, 8) as int; let ar = be16(p, 10) as int;
    assert forall|i: int| 0 <= i < 12 implies c[i] == p[i] by { assert(c.subrange(0, 12)[i] == p.subrange(0, 12)[i]); }
    assert(be16(c, 4) == be16(p, 4) && be16(c, 6) == be16(p, 6) && be16(c, 8) == be16(p, 8) && be16(c, 10) == be16(p, 10));
    let h = c.subrange(0, 12); let q = un_q(c); let ra = un_rrs(c, sa, an); let rn = un_rrs(c, sn, ns); let rr_ = un_rrs(c, sr, ar);
    assert(u == h + q + ra + rn + rr_);
    assert(be16(p, 4) == 1) by { reveal(parse_spec); }
    // question
    let qe2 = name_end(c, 12).unwrap(); let qe = pcs_end(p, 12).unwrap(); let nm = name_exp(c, 12);
    lemma_name_end_bounds(c, 12); lemma_pcs_bounds(p, 12, 0);
    let b1: int = 12 + q.len() as int;
    let ue = 12 + nm.len() as int;
    lemma_name_exp_id(u, 12);
    assert(u.subrange(12, ue) =~= nm) by { assert forall|i: int| 0 <= i < nm.len() implies #[trigger] u.subrange(12, ue)[i] == nm[i] by { assert(q[i] == nm[i]); assert(u[12 + i] == q[i]); } }
    assert(u.subrange(ue, ue + 4) =~= c.subrange(qe2, qe2 + 4)) by {
        assert forall|i: int| 0 <= i < 4 implies #[trigger] u.subrange(ue, ue + 4)[i] == c.subrange(qe2, qe2 + 4)[i] by { assert(q[nm.len() + i] == c.subrange(qe2, qe2 + 4)[i]); assert(u[12 + (nm.len() + i)] == q[nm.len() + i]); } }
    assert(q_ci(u, ue, p));
    assert(nm.len() == qe - 12);
    assert(u.subrange(0, 12) == p.subrange(0, 12));
    // sections
    let b2: int = b1 + ra.len(); let b3: int = b2 + rn.len();
    assert forall|i: int| 0 <= i < ra.len() implies u[b1 + i] == ra[i] by { }
    assert forall|i: int| 0 <= i < rn.len() implies u[b2 + i] == rn[i] by { }
    assert forall|i: int| 0 <= i < rr_.len() implies u[b3 + i] == rr_[i] by { }
    lemma_c06_section(c, sa, an, u, b1, p, pa);
    lemma_c06_section(c, sn, ns, u, b2, p, pn);
    lemma_c06_section(c, sr, ar, u, b3, p, pr);
}
// one section of the round trip: the records of u at b are the decompressed records of c at s, hence carry the data of p's records at si
pub proof fn lemma_c06_section(c: Seq<u8>, s: int, n: int, u: Seq<u8>, b: int, p: Seq<u8>, si: int)
    requires recs_all(c, s, n), 0 <= s <= c.len(), n >= 0, 0 <= b, b + un_rrs(c, s, n).len() <= u.len(),
        forall|i: int| 0 <= i < un_rrs(c, s, n).len() ==> u[b + i] == un_rrs(c, s, n)[i],
        pf_rrs(p, si, n), recs_ci(c, s, p, si, n),
    ensures recs_ci(u, b, p, si, n), un_rrs(c, s, n).len() == pf_rrs_end(p, si, n) - si, pf_rrs(u, b, n), pf_rrs_end(u, b, n) == b + un_rrs(c, s, n).len(),
{
    assert forall|k: int| 0 <= k < n implies rec_ci(c, #[trigger] rec_start(c, s, k), p, pf_rrs_end(p, si, k)) by { lemma_recs_ci_at(c, s, p, si, n, k); }
    lemma_un_rrs_pf(c, s, n, u, b);
    lemma_un_recs_ci(c, s, n, u, b, p, si);
    lemma_pf_recs(u, b, n);
    assert forall|k: int| 0 <= k < n implies rec_ci(u, #[trigger] rec_start(u, b, k), p, pf_rrs_end(p, si, k)) by {
        assert(rec_start(u, b, k) == pf_rrs_end(u, b, k));
        assert(pf_rrs_end(u, b, k) == b + un_rrs(c, s, k).len());
    }
    lemma_recs_ci_from(u, b, p, si, n);
}
