// ===== spec/pfpacket.rs: pointer-free packets; the output of decompression is one (C05), and is what the mutators work on (C08-C10) =====
pub open spec fn pf_q_end(v: Seq<u8>) -> int { if be16(v, 4) == 1 { pcs_end(v, 12).unwrap() + 4 } else { 12 } }
pub open spec fn pf_packet(v: Seq<u8>) -> bool {
    v.len() >= 12 && be16(v, 4) <= 1
    && (be16(v, 4) == 1 ==> (pcs_end(v, 12) matches Some(qe) && qe + 4 <= v.len()))
    && ({ let o1 = pf_q_end(v); let an = be16(v, 6) as int; let ns = be16(v, 8) as int; let ar = be16(v, 10) as int;
          let o2 = pf_rrs_end(v, o1, an); let o3 = pf_rrs_end(v, o2, ns);
          pf_rrs(v, o1, an) && pf_rrs(v, o2, ns) && pf_rrs(v, o3, ar) && pf_rrs_end(v, o3, ar) == v.len()
          && pf_n_opt(v, o1, an) == 0 && pf_n_opt(v, o2, ns) == 0 && pf_n_opt(v, o3, ar) <= 1 })
}

// a pointer-free record is a structurally valid record with the same extent, type and OPT-ness
pub proof fn lemma_pf_rec(v: Seq<u8>, off: int)
    requires pf_rr(v, off)
    ensures rec_ok(v, off), rec_ne(v, off) == pcs_end(v, off).unwrap(), rec_end(v, off) == pf_end(v, off), is_opt(v, off) == pf_is_opt(v, off),
        off < pf_end(v, off) <= v.len()
{
    let ne = pcs_end(v, off).unwrap(); let d = ne + 10; let t = be16(v, ne);
    lemma_pcs_name_end(v, off);
    lemma_pcs_bounds(v, off, 0);
    lemma_pf_rr_spec(v, off, SecT::Additional, false);
    if t == 2 || t == 5 || t == 12 { lemma_pcs_name_end(v, d); }
    else if t == 15 { lemma_pcs_name_end(v, d + 2); }
    else if t == 6 { lemma_pcs_name_end(v, d); lemma_pcs_name_end(v, pcs_end(v, d).unwrap()); }
}
pub proof fn lemma_pf_recs(v: Seq<u8>, off: int, n: int)
    requires pf_rrs(v, off, n), 0 <= off <= v.len()
    ensures recs_all(v, off, n), sec_end(v, off, n) == pf_rrs_end(v, off, n), n_opt(v, off, n) == pf_n_opt(v, off, n),
        off <= pf_rrs_end(v, off, n) <= v.len(),
        forall|k: int| 0 <= k <= n ==> rec_start(v, off, k) == #[trigger] pf_rrs_end(v, off, k),
    decreases n
{
    if n > 0 {
        lemma_pf_rec(v, off);
        lemma_pf_recs(v, pf_end(v, off), n - 1);
        assert forall|k: int| 0 <= k <= n implies rec_start(v, off, k) == #[trigger] pf_rrs_end(v, off, k) by {
            if k > 0 { assert(rec_start(v, pf_end(v, off), k - 1) == pf_rrs_end(v, pf_end(v, off), k - 1)); }
        }
    }
}
pub proof fn lemma_pf_opt_at(v: Seq<u8>, off: int, n: int)
    requires pf_rrs(v, off, n), 0 <= off <= v.len()
    ensures opt_at(v, off, n) matches Some(o) ==> opts(v, o + 10, o + 10 + be16(v, o + 8)).is_some()
    decreases n
{
    if n > 0 { lemma_pf_rec(v, off); if !is_opt(v, off) { lemma_pf_opt_at(v, pf_end(v, off), n - 1); } }
}
// C05 / C08: a pointer-free packet satisfies the reader-level invariant on its bytes ...
pub proof fn lemma_pf_wf_bytes(v: Seq<u8>)
    requires pf_packet(v)
    ensures wf_bytes(v), q_end(v) == pf_q_end(v),
        sec_start(v, Section::NameServers) == pf_rrs_end(v, pf_q_end(v), be16(v, 6) as int),
        sec_start(v, Section::Additional) == pf_rrs_end(v, pf_rrs_end(v, pf_q_end(v), be16(v, 6) as int), be16(v, 8) as int),
{
    let o1 = pf_q_end(v); let an = be16(v, 6) as int; let ns = be16(v, 8) as int; let ar = be16(v, 10) as int;
    if be16(v, 4) == 1 { lemma_pcs_name_end(v, 12); lemma_pcs_bounds(v, 12, 0); }
    lemma_pf_recs(v, o1, an);
    let o2 = pf_rrs_end(v, o1, an);
    lemma_pf_recs(v, o2, ns);
    let o3 = pf_rrs_end(v, o2, ns);
    lemma_pf_recs(v, o3, ar);
    lemma_pf_opt_at(v, o3, ar);
}
// ... and, when the two policy clauses hold, is accepted by the parser
pub proof fn lemma_pf_accepted(v: Seq<u8>)
    requires pf_packet(v), be16(v, 4) == 1, be16(v, pcs_end(v, 12).unwrap() + 2) == 1, !qr(v) ==> be16(v, 6) == 0 && be16(v, 8) == 0
    ensures wf_packet(v)
{
    let o1 = pf_q_end(v); let an = be16(v, 6) as int; let ns = be16(v, 8) as int; let ar = be16(v, 10) as int;
    lemma_pcs_name_end(v, 12); lemma_pcs_bounds(v, 12, 0);
    lemma_pf_rrs_bounds(v, o1, an);
    lemma_pf_rrs_spec(v, o1, an, SecT::Answer, None);
    let o2 = pf_rrs_end(v, o1, an);
    lemma_pf_rrs_bounds(v, o2, ns);
    lemma_pf_rrs_spec(v, o2, ns, SecT::NameServers, None);
    let o3 = pf_rrs_end(v, o2, ns);
    lemma_pf_rrs_bounds(v, o3, ar);
    lemma_pf_rrs_spec(v, o3, ar, SecT::Additional, None);
}

// ---- decompression of one record yields a pointer-free record: u holds un_rr(p, off) at position b
pub proof fn lemma_un_rr_pf(p: Seq<u8>, off: int, u: Seq<u8>, b: int)
    requires rec_ok(p, off), 0 <= b, b + un_rr(p, off).len() <= u.len(),
        forall|i: int| 0 <= i < un_rr(p, off).len() ==> u[b + i] == un_rr(p, off)[i],
    ensures pf_rr(u, b), pf_end(u, b) == b + un_rr(p, off).len(), pf_is_opt(u, b) == is_opt(p, off),
        pcs_end(u, b) == Some(b + name_exp(p, off).len()),
        be16(u, b + name_exp(p, off).len() + 8) == un_rd(p, rec_ne(p, off)).len(),
{
    let ne = rec_ne(p, off); let t = be16(p, ne); let l = be16(p, ne + 8) as int; let d = ne + 10;
    let nm = name_exp(p, off); let rd = un_rd(p, ne); let w = un_rr(p, off); let nl = nm.len() as int;
    lemma_rec_bounds(p, off);
    lemma_name_exp_valid(p, off);
    lemma_un_rd_len(p, off);
    // owner name
    assert forall|i: int| 0 <= i < nm.len() implies nm[i] == u[i + b] by { assert(w[i] == nm[i]); }
    lemma_pcs_shift(nm, 0, u, b, 0);
    let une = b + nl;
    // fixed fields
    assert forall|i: int| 0 <= i < 8 implies #[trigger] u[une + i] == p[ne + i] by { assert(w[nl + i] == p.subrange(ne, ne + 8)[i]); }
    assert(u[une + 0] == p[ne + 0] && u[une + 1] == p[ne + 1]);
    assert(be16(u, une) == t);
    let l2 = rd.len() as u16;
    assert(u[une + 8] == hi8(l2) && u[une + 9] == lo8(l2)) by { assert(w[nl + 8] == b16(l2)[0]); assert(w[nl + 9] == b16(l2)[1]); }
    lemma_be16_compose(l2);
    assert(be16(u, une + 8) == l2);
    let ud = une + 10;
    assert forall|i: int| 0 <= i < rd.len() implies #[trigger] u[ud + i] == rd[i] by { assert(w[nl + 10 + i] == rd[i]); }
    if t == 41 {
        // root owner: the expansion of a name whose encoding is one byte long is the root label
        lemma_root_name(p, off);
        assert(nm =~= seq![0u8]) by { assert(0u8 & 0xc0 != 0xc0) by(bit_vector); lemma_name_end_bounds(p, off); }
        assert forall|i: int| d <= i < d + l implies p[i] == u[i - d + ud] by { assert(rd[i - d] == p[i]); assert(u[ud + (i - d)] == rd[i - d]); }
        lemma_opts_shift(p, d, d + l, u, ud);
        lemma_be16_bytes(p[ne + 8], p[ne + 9]);
    } else if t == 2 || t == 5 || t == 12 {
        lemma_name_exp_valid(p, d);
        assert forall|i: int| 0 <= i < rd.len() implies rd[i] == u[i + ud] by { assert(u[ud + i] == rd[i]); }
        lemma_pcs_shift(rd, 0, u, ud, 0);
    } else if t == 15 {
        lemma_name_exp_valid(p, d + 2);
        let n2 = name_exp(p, d + 2);
        assert forall|i: int| 0 <= i < n2.len() implies n2[i] == u[i + ud + 2] by { assert(rd[i + 2] == n2[i]); assert(u[ud + (i + 2)] == rd[i + 2]); }
        lemma_pcs_shift(n2, 0, u, ud + 2, 0);
    } else if t == 6 {
        let e1 = name_end(p, d).unwrap(); let e2 = name_end(p, e1).unwrap();
        lemma_name_end_bounds(p, d); lemma_name_end_bounds(p, e1);
        lemma_name_exp_valid(p, d); lemma_name_exp_valid(p, e1);
        let x1 = name_exp(p, d); let x2 = name_exp(p, e1);
        assert forall|i: int| 0 <= i < x1.len() implies x1[i] == u[i + ud] by { assert(rd[i] == x1[i]); assert(u[ud + i] == rd[i]); }
        lemma_pcs_shift(x1, 0, u, ud, 0);
        assert forall|i: int| 0 <= i < x2.len() implies x2[i] == u[i + ud + x1.len()] by { assert(rd[i + x1.len()] == x2[i]); assert(u[ud + (i + x1.len())] == rd[i + x1.len()]); }
        lemma_pcs_shift(x2, 0, u, ud + x1.len(), 0);
    } else if t == 39 {
        assert forall|i: int| d <= i < d + l implies p[i] == u[i - d + ud] by { assert(rd[i - d] == p[i]); assert(u[ud + (i - d)] == rd[i - d]); }
        lemma_plain_shift(p, d, u, ud, 0);
        lemma_be16_bytes(p[ne + 8], p[ne + 9]);
    } else {
        lemma_be16_bytes(p[ne + 8], p[ne + 9]);
    }
}

// record k of a run of pointer-free records is a pointer-free record (and sits at rec_start)
pub proof fn lemma_pf_at(v: Seq<u8>, s: int, n: int, k: int)
    requires pf_rrs(v, s, n), 0 <= k < n, 0 <= s <= v.len()
    ensures pf_rr(v, rec_start(v, s, k))
    decreases k
{
    lemma_pf_rec(v, s);
    if k > 0 { lemma_pf_at(v, pf_end(v, s), n - 1, k - 1); }
}
// data rules of a pointer-free record whose owner name ends at ne (the rdata part of pf_rr)
pub open spec fn pf_rd_ok(p: Seq<u8>, ne: int) -> bool {
    let t = be16(p, ne); let l = be16(p, ne + 8) as int; let d = ne + 10;
    if t == 2 || t == 5 || t == 12 { pcs_end(p, d) == Some(d + l) }
    else if t == 15 { l > 2 && pcs_end(p, d + 2) == Some(d + l) }
    else if t == 6 { pcs_end(p, d) matches Some(n1) && (pcs_end(p, n1) matches Some(n2) && l > 21 && n2 + 20 == d + l) }
    else { true }
}
pub proof fn lemma_pf_rd(v: Seq<u8>, off: int)
    requires pf_rr(v, off)
    ensures pf_rd_ok(v, pcs_end(v, off).unwrap()), pcs_end(v, off).is_some()
{ }
