// ===== spec/pfmut_ops.rs: the specified results of insert / delete / rename (spec/mutate.rs) re-establish the object invariant (C08) =====
pub open spec fn sec_of_idx(si: int) -> Section { if si == 0 { Section::Question } else if si == 1 { Section::Answer } else if si == 2 { Section::NameServers } else { Section::Additional } }
// the offsets of a well-formed object over a pointer-free packet, in terms of the pointer-free layout
pub proof fn lemma_wf_offsets(mid: ParsedPacket)
    requires mid.wf(), pf_packet(mid.bytes())
    ensures ({ let u = mid.bytes();
        mid.packet.is_some() && u.len() <= usize::MAX && 12 <= pf_q_end(u) <= pf_e1(u) <= pf_e2(u) <= u.len()
        && mid.offset_question == some_if(be16(u, 4) == 1, 12)
        && mid.offset_answers == some_if(sec_n(u, 1) > 0, pf_q_end(u)) && mid.offset_nameservers == some_if(sec_n(u, 2) > 0, pf_e1(u))
        && mid.offset_additional == some_if(sec_n(u, 3) > 0, pf_e2(u))
        && (match opt_at(u, pf_e2(u), sec_n(u, 3)) { None => mid.offset_edns.is_none(), Some(o) => mid.offset_edns == Some((o + 10) as usize) && pf_e2(u) < o && o + 10 <= u.len() }) }),
{
    hide(pf_rr); hide(pf_rrs); hide(pf_rrs_end); hide(pf_n_opt); hide(wf_bytes); hide(opts); hide(opt_at); hide(recs_all); hide(sec_end); hide(n_opt);
    hide(walk); hide(exp); hide(pcs_walk); hide(rd_ok);
    let u = mid.bytes();
    lemma_pf_wf_bytes(u);
    lemma_pf_packet_facts(u);
    let vu = mid.packet.unwrap(); axiom_vec_len(&vu);
    let e2 = pf_e2(u); let ar = be16(u, 10) as int;
    lemma_opt_at_shift(u, e2, ar, u, e2);
}
// C03/C08: the section an offset is attributed to, for the start of record k of record section si
pub proof fn lemma_section_at(mid: ParsedPacket, si: int, k: int)
    requires mid.wf(), pf_packet(mid.bytes()), 1 <= si <= 3, 0 <= k < sec_n(mid.bytes(), si)
    ensures ({ let u = mid.bytes(); let o = pf_rrs_end(u, sec_st(u, si), k);
        section_at(mid, Some(o as usize)) == sec_of_idx(si) && !opt_lt(Some(o as usize), mid.offset_question)
        && 12 <= sec_st(u, si) <= o && o < pf_rrs_end(u, sec_st(u, si), sec_n(u, si)) && pf_rr(u, o) && pf_end(u, o) == pf_rrs_end(u, sec_st(u, si), k + 1) }),
{
    hide(pf_rr); hide(pf_rrs); hide(pf_rrs_end); hide(pf_n_opt); hide(pf_packet); hide(opt_at); hide(ParsedPacket::wf);
    let u = mid.bytes(); let st = sec_st(u, si); let n = sec_n(u, si);
    lemma_wf_offsets(mid);
    lemma_pf_packet_facts(u);
    lemma_opt_at_3(u, st, n, k, 1);
    lemma_pf_rr_spec(u, pf_rrs_end(u, st, k), SecT::Answer, false);
}

// ---- set_raw_name on record k of record section si
pub proof fn lemma_named_wf(fin: ParsedPacket, mid: ParsedPacket, si: int, k: int, nm: Seq<u8>)
    requires mid.wf(), pf_packet(mid.bytes()), 1 <= si <= 3, 0 <= k < sec_n(mid.bytes(), si), is_cname(nm),
        ({ let u = mid.bytes(); let o = pf_rrs_end(u, sec_st(u, si), k);
           !pf_is_opt(u, o) && named(fin, mid, o as usize, pcs_end(u, o).unwrap(), nm) }),
    ensures fin.wf(), pf_packet(fin.bytes()),
        ({ let u = mid.bytes(); let v = fin.bytes(); let st = sec_st(u, si); let n = sec_n(u, si); let o = pf_rrs_end(u, st, k); let ne = pcs_end(u, o).unwrap();
           let wl = nm.len() + (pf_end(u, o) - ne);
           // the record is still record k of its section, and the records after it are the ones that followed
           sec_st(v, si) == st && sec_n(v, si) == n && pf_rrs_end(v, st, k) == o && pf_rr(v, o) && pcs_end(v, o) == Some(o + nm.len()) && pf_end(v, o) == o + wl
           && !pf_is_opt(v, o) && pf_rrs(v, st, n) && pf_rrs(v, o + wl, n - k - 1) && pf_rrs_end(v, o + wl, n - k - 1) == pf_rrs_end(v, st, n)
           && pf_n_opt(v, o + wl, n - k - 1) == pf_n_opt(u, pf_end(u, o), n - k - 1)
           && pkt_edit_pre(u, v, si, k, 1, wl, 1) }),
{
    hide(pf_rr); hide(pf_rrs); hide(pf_rrs_end); hide(pf_n_opt); hide(pf_packet); hide(opt_at); hide(ParsedPacket::wf); hide(pcs_walk);
    let u = mid.bytes(); let v = fin.bytes(); let st = sec_st(u, si); let n = sec_n(u, si); let o = pf_rrs_end(u, st, k); let ne = pcs_end(u, o).unwrap();
    let next = pf_end(u, o); let wl = nm.len() + (next - ne); let d = nm.len() - (ne - o);
    lemma_wf_offsets(mid);
    lemma_section_at(mid, si, k);
    lemma_pf_packet_facts(u);
    lemma_opt_at_3(u, st, n, k, 1);
    lemma_pf_rr_spec(u, o, SecT::Answer, false);
    lemma_pcs_bounds(u, o, 0);
    assert(o < ne && ne + 10 <= next && next <= u.len()) by { reveal(pf_rr); }
    // the new record
    assert forall|i: int| 0 <= i < nm.len() implies v[o + i] == nm[i] by { }
    assert forall|j: int| 0 <= j < next - ne implies #[trigger] v[o + nm.len() + j] == u[ne + j] by { }
    lemma_pf_rr_rename(u, o, v, nm);
    assert(pkt_edit_pre(u, v, si, k, 1, wl, 1)) by {
        assert(pf_rrs_end(u, st, k + 1) == next);
        assert(be16(v, 4 + 2 * si) == be16(u, 4 + 2 * si)) by { assert(v[4 + 2 * si] == u[4 + 2 * si] && v[5 + 2 * si] == u[5 + 2 * si]); }
        assert forall|i: int| next <= i < u.len() implies #[trigger] v[i + (wl - (next - o))] == u[i] by { }
    }
    assert(edited(fin, mid, si, k, 1, wl, 1));
    lemma_edit_wf(fin, mid, si, k, 1, wl, 1);
    lemma_pkt_edit(u, v, si, k, 1, wl, 1);
    lemma_pf_packet_facts(v);
}

// ---- delete of record k of record section si
pub proof fn lemma_deleted_wf(fin: ParsedPacket, mid: ParsedPacket, si: int, k: int)
    requires mid.wf(), pf_packet(mid.bytes()), 1 <= si <= 3, 0 <= k < sec_n(mid.bytes(), si),
        ({ let u = mid.bytes(); let o = pf_rrs_end(u, sec_st(u, si), k);
           deleted(fin, mid, o as usize, pf_end(u, o), sec_of_idx(si), si == 3 && pf_is_opt(u, o)) }),
    ensures fin.wf(), pf_packet(fin.bytes()),
        ({ let u = mid.bytes(); let v = fin.bytes(); let st = sec_st(u, si); let n = sec_n(u, si); let o = pf_rrs_end(u, st, k);
           // C11: the section now holds the other records, in order: k before the cut, n-k-1 after it, starting where the removed record started
           sec_st(v, si) == st && sec_n(v, si) == n - 1 && pf_rrs_end(v, st, k) == o && pf_rrs(v, st, n - 1)
           && pf_rrs(v, o, n - k - 1) && pf_rrs_end(v, o, n - k - 1) == pf_rrs_end(v, st, n - 1)
           && pkt_edit_pre(u, v, si, k, 1, 0, 0) }),
{
    hide(pf_rr); hide(pf_rrs); hide(pf_rrs_end); hide(pf_n_opt); hide(pf_packet); hide(opt_at); hide(ParsedPacket::wf); hide(pcs_walk);
    let u = mid.bytes(); let v = fin.bytes(); let st = sec_st(u, si); let n = sec_n(u, si); let o = pf_rrs_end(u, st, k);
    let next = pf_end(u, o); let cp = 4 + 2 * si; let c = (be16(u, cp) - 1) as u16;
    lemma_wf_offsets(mid);
    lemma_section_at(mid, si, k);
    lemma_pf_packet_facts(u);
    lemma_opt_at_3(u, st, n, k, 1);
    lemma_pf_rr_spec(u, o, SecT::Answer, false);
    let w = splice(u, o, next, Seq::<u8>::empty());
    assert(w.len() == u.len() - (next - o));
    lemma_be16_update(w, cp, c);
    assert(pkt_edit_pre(u, v, si, k, 1, 0, 0)) by {
        assert(pf_rrs_end(u, st, k + 1) == next);
        assert forall|i: int| 0 <= i < o && i != cp && i != cp + 1 implies v[i] == u[i] by { }
        assert forall|i: int| next <= i < u.len() implies #[trigger] v[i + (0 - (next - o))] == u[i] by { }
    }
    if si < 3 { assert(!pf_is_opt(u, o)) by { lemma_pf_rrs_one(u, o); } }
    assert(edited(fin, mid, si, k, 1, 0, 0));
    lemma_edit_wf(fin, mid, si, k, 1, 0, 0);
    lemma_pkt_edit(u, v, si, k, 1, 0, 0);
    lemma_pf_packet_facts(v);
}

// ---- insert_rr of a pointer-free non-OPT record at the end of record section si
pub proof fn lemma_inserted_wf(fin: ParsedPacket, mid: ParsedPacket, si: int, rr: Seq<u8>)
    requires mid.wf(), pf_packet(mid.bytes()), 1 <= si <= 3, sec_n(mid.bytes(), si) < 0xffff, pf_rr(rr, 0), pf_end(rr, 0) == rr.len(), !pf_is_opt(rr, 0),
        inserted(fin, mid, sec_of_idx(si), rr),
    ensures fin.wf(), pf_packet(fin.bytes()),
        ({ let u = mid.bytes(); let v = fin.bytes(); let st = sec_st(u, si); let n = sec_n(u, si);
           // C09: "appends the given record at the end of the chosen section"
           ins_point(mid, sec_of_idx(si)) == pf_rrs_end(u, st, n) && sec_st(v, si) == st && sec_n(v, si) == n + 1 && pf_rrs(v, st, n + 1) && pf_rrs_end(v, st, n) == pf_rrs_end(u, st, n)
           && pf_rr(v, pf_rrs_end(u, st, n)) && pf_end(v, pf_rrs_end(u, st, n)) == pf_rrs_end(u, st, n) + rr.len()
           && pkt_edit_pre(u, v, si, n, 0, rr.len() as int, 1) }),
{
    hide(pf_rr); hide(pf_rrs); hide(pf_rrs_end); hide(pf_n_opt); hide(pf_packet); hide(opt_at); hide(ParsedPacket::wf); hide(pcs_walk);
    let u = mid.bytes(); let v = fin.bytes(); let st = sec_st(u, si); let n = sec_n(u, si); let a = pf_rrs_end(u, st, n);
    let cp = 4 + 2 * si; let c = (be16(u, cp) + 1) as u16; let wl = rr.len() as int;
    lemma_wf_offsets(mid);
    lemma_pf_packet_facts(u);
    lemma_pf_rrs_one(u, pf_e1(u)); lemma_pf_rrs_one(u, pf_e2(u)); lemma_pf_rrs_one(u, st);
    // the insertion point is the end of the section
    assert(ins_point(mid, sec_of_idx(si)) == a) by {
        reveal(pf_rrs_end);
        if be16(u, 8) == 0 { assert(pf_e2(u) == pf_e1(u)); }
        if be16(u, 10) == 0 { assert(u.len() == pf_e2(u)); }
    }
    lemma_pf_rr_spec(rr, 0, SecT::Answer, false);
    let u1 = set2(u, cp, c);
    lemma_be16_update(u, cp, c);
    assert(v == u1.subrange(0, a) + rr + u1.subrange(a, u.len() as int));
    assert forall|i: int| 0 <= i < wl implies rr[i] == v[i - 0 + a] by { }
    lemma_pf_rr_shift(rr, 0, v, a);
    assert(pf_rrs_end(u, st, n + 0) == a);
    assert(pkt_edit_pre(u, v, si, n, 0, wl, 1)) by {
        assert(be16(v, cp) == c) by { assert(v[cp] == u1[cp] && v[cp + 1] == u1[cp + 1]); }
        assert forall|i: int| 0 <= i < a && i != cp && i != cp + 1 implies v[i] == u[i] by { }
        assert forall|i: int| a <= i < u.len() implies #[trigger] v[i + (wl - (a - a))] == u[i] by { assert(v[i + wl] == u1[i]); }
    }
    assert(edited(fin, mid, si, n, 0, wl, 1)) by {
        // offset_edns: an OPT record lies in the additional section, hence behind every earlier insertion point and before the end of the packet
        assert(pf_e2(u) >= a || si == 3);
    }
    lemma_edit_wf(fin, mid, si, n, 0, wl, 1);
    lemma_pkt_edit(u, v, si, n, 0, wl, 1);
    lemma_pf_packet_facts(v);
    lemma_opt_at_3(v, st, n + 1, n, 1);
}
