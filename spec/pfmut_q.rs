// ===== spec/pfmut_q.rs: replacing the question name of a pointer-free packet (C08, question cursor) =====
pub proof fn lemma_bmap_q(p: Seq<u8>)
    requires wf_bytes(p), be16(p, 4) == 1
    ensures bmap(p, 12) == Some(12int)
{
    let sa = sec_start(p, Section::Answer); let ca = sec_count(p, Section::Answer);
    let sn = sec_start(p, Section::NameServers); let cn = sec_count(p, Section::NameServers);
    let sr = sec_start(p, Section::Additional); let cr = sec_count(p, Section::Additional);
    let b1: int = 12int + un_q(p).len() as int;
    let b2: int = b1 + un_rrs(p, sa, ca).len();
    let b3: int = b2 + un_rrs(p, sn, cn).len();
    let m0: Option<int> = Some(12int);
    lemma_wf_bytes_facts(p);
    lemma_name_end_bounds(p, 12);
    lemma_sec_end_bounds(p, sa, ca); lemma_sec_end_bounds(p, sn, cn); lemma_sec_end_bounds(p, sr, cr);
    lemma_bm_k_out(p, sa, ca, 12, b1, m0);
    lemma_bm_k_out(p, sn, cn, 12, b2, m0);
    lemma_bm_k_out(p, sr, cr, 12, b3, m0);
}
// bytes level: the three record runs move by d = |nm| - |old name|, nothing else changes
pub proof fn lemma_q_edit(u: Seq<u8>, v: Seq<u8>, nm: Seq<u8>)
    requires pf_packet(u), be16(u, 4) == 1, is_cname(nm), v == splice(u, 12, pcs_end(u, 12).unwrap(), nm)
    ensures ({ let qe = pcs_end(u, 12).unwrap(); let d = nm.len() - (qe - 12); let ar = be16(u, 10) as int;
        pf_packet(v) && be16(v, 4) == 1 && be16(v, 6) == be16(u, 6) && be16(v, 8) == be16(u, 8) && be16(v, 10) == be16(u, 10)
        && pcs_end(v, 12) == Some(12 + nm.len() as int) && 12 < qe && qe + 4 == pf_q_end(u) && v.len() == u.len() + d
        && pf_q_end(v) == pf_q_end(u) + d && pf_e1(v) == pf_e1(u) + d && pf_e2(v) == pf_e2(u) + d
        && opt_at(v, pf_e2(v), ar) == shift_o(opt_at(u, pf_e2(u), ar), d)
        && (opt_at(u, pf_e2(u), ar) matches Some(o) ==> pf_e2(u) < o && o + 10 <= u.len() && opt_data(v, o + d) == opt_data(u, o)) }),
{
    hide(pf_rr); hide(pf_rrs); hide(pf_rrs_end); hide(pf_n_opt); hide(opts); hide(opt_at); hide(pcs_walk);
    let qe = pcs_end(u, 12).unwrap(); let d = nm.len() - (qe - 12);
    let o1 = pf_q_end(u); let an = be16(u, 6) as int; let ns = be16(u, 8) as int; let ar = be16(u, 10) as int; let e1 = pf_e1(u); let e2 = pf_e2(u);
    lemma_pf_packet_facts(u);
    lemma_pcs_bounds(u, 12, 0);
    assert forall|i: int| 0 <= i < 12 implies v[i] == u[i] by { }
    assert(be16(v, 4) == be16(u, 4) && be16(v, 6) == be16(u, 6) && be16(v, 8) == be16(u, 8) && be16(v, 10) == be16(u, 10));
    assert forall|i: int| 0 <= i < nm.len() implies nm[i] == v[i - 0 + 12] by { }
    lemma_pcs_shift(nm, 0, v, 12, 0);
    assert forall|i: int| qe <= i < u.len() implies u[i] == v[i + d] by { }
    assert forall|i: int| o1 <= i < pf_rrs_end(u, o1, an) implies u[i] == v[i - o1 + (o1 + d)] by { }
    lemma_pf_rrs_shift(u, o1, an, v, o1 + d);
    assert forall|i: int| e1 <= i < pf_rrs_end(u, e1, ns) implies u[i] == v[i - e1 + (e1 + d)] by { }
    lemma_pf_rrs_shift(u, e1, ns, v, e1 + d);
    assert forall|i: int| e2 <= i < pf_rrs_end(u, e2, ar) implies u[i] == v[i - e2 + (e2 + d)] by { }
    lemma_pf_rrs_shift(u, e2, ar, v, e2 + d);
    lemma_opt_at_shift(u, e2, ar, v, e2 + d);
}
pub proof fn lemma_q_named_wf(fin: ParsedPacket, mid: ParsedPacket, nm: Seq<u8>)
    requires mid.wf(), pf_packet(mid.bytes()), be16(mid.bytes(), 4) == 1, is_cname(nm),
        named(fin, mid, 12, pcs_end(mid.bytes(), 12).unwrap(), nm),
    ensures fin.wf(), pf_packet(fin.bytes()), be16(fin.bytes(), 4) == 1, pcs_end(fin.bytes(), 12) == Some(12 + nm.len() as int), 12 + nm.len() + 4 <= fin.bytes().len(),
{
    hide(pf_rr); hide(pf_rrs); hide(pf_rrs_end); hide(pf_n_opt); hide(wf_bytes); hide(opts); hide(opt_at); hide(recs_all); hide(sec_end); hide(n_opt);
    hide(walk); hide(exp); hide(pcs_walk); hide(rd_ok); hide(pf_packet);
    let u = mid.bytes(); let v = fin.bytes();
    lemma_wf_offsets(mid);
    lemma_pf_packet_facts(u);
    lemma_q_edit(u, v, nm);
    lemma_pf_packet_facts(v);
    lemma_pf_wf_bytes(u);
    lemma_pf_wf_bytes(v);
    let vu = mid.packet.unwrap(); axiom_vec_len(&vu);
    let vf = fin.packet.unwrap(); axiom_vec_len(&vf);
    // section_at(mid, Some(12)) is the question section: every later section starts behind the question
    assert(section_at(mid, Some(12usize)) is Question);
}
// the question cursor (12, end of the question name, end of the question) of a well-formed object over a pointer-free packet
pub proof fn lemma_q_cursor(mid: ParsedPacket)
    requires mid.wf(), pf_packet(mid.bytes()), be16(mid.bytes(), 4) == 1, mid.bytes().len() <= 0xffff
    ensures ({ let u = mid.bytes(); let qe = pcs_end(u, 12).unwrap();
        pcs_end(u, 12).is_some() && name_end(u, 12) == Some(qe) && 12 < qe && qe + 4 <= u.len() && mid_ok::<QuestionIterator>(mid, 12, qe, qe + 4) }),
{
    hide(pf_rr); hide(pf_rrs); hide(pf_rrs_end); hide(pf_n_opt); hide(wf_bytes); hide(opts); hide(opt_at); hide(recs_all); hide(sec_end); hide(n_opt);
    hide(walk); hide(exp); hide(pcs_walk); hide(rd_ok); hide(skip_walk); hide(ParsedPacket::wf);
    let u = mid.bytes(); let qe = pcs_end(u, 12).unwrap();
    lemma_wf_offsets(mid);
    lemma_pf_packet_facts(u);
    lemma_pcs_bounds(u, 12, 0);
    lemma_pcs_name_end(u, 12);
    lemma_name_end_skip(u, 12);
    lemma_skip_range(u, 12, qe, 12);
    assert(section_at(mid, Some(12usize)) is Question);
    assert(cursor_ok(mid, 12, qe, qe + 4));
    assert forall|nm: Seq<u8>| is_cname(nm) implies #[trigger] QuestionIterator::trec_ok(splice(u, 12, qe, nm), 12) by {
        let v = splice(u, 12, qe, nm);
        assert forall|i: int| 0 <= i < nm.len() implies nm[i] == v[i - 0 + 12] by { }
        lemma_pcs_shift(nm, 0, v, 12, 0);
        lemma_pcs_name_end(v, 12);
    }
}

// ---- deleting the question of a pointer-free packet: the three record runs move up by the length of the question, nothing else changes
pub proof fn lemma_q_cut(u: Seq<u8>, v: Seq<u8>)
    requires pf_packet(u), be16(u, 4) == 1, v == set2(splice(u, 12, pf_q_end(u), Seq::<u8>::empty()), 4, 0u16)
    ensures ({ let d = 12 - pf_q_end(u); let ar = be16(u, 10) as int;
        pf_packet(v) && be16(v, 4) == 0 && be16(v, 6) == be16(u, 6) && be16(v, 8) == be16(u, 8) && be16(v, 10) == be16(u, 10)
        && v.len() == u.len() + d && pf_q_end(v) == 12 && pf_e1(v) == pf_e1(u) + d && pf_e2(v) == pf_e2(u) + d
        && opt_at(v, pf_e2(v), ar) == shift_o(opt_at(u, pf_e2(u), ar), d)
        && (opt_at(u, pf_e2(u), ar) matches Some(o) ==> pf_e2(u) < o && o + 10 <= u.len() && opt_data(v, o + d) == opt_data(u, o)) }),
{
    hide(pf_rr); hide(pf_rrs); hide(pf_rrs_end); hide(pf_n_opt); hide(opts); hide(opt_at); hide(pcs_walk);
    let o1 = pf_q_end(u); let d = 12 - o1;
    let an = be16(u, 6) as int; let ns = be16(u, 8) as int; let ar = be16(u, 10) as int; let e1 = pf_e1(u); let e2 = pf_e2(u);
    lemma_pf_packet_facts(u);
    lemma_pcs_bounds(u, 12, 0);
    let w = splice(u, 12, o1, Seq::<u8>::empty());
    assert(w.len() == u.len() + d);
    assert forall|i: int| 0 <= i < 12 && i != 4 && i != 5 implies v[i] == u[i] by { assert(w[i] == u[i]); }
    assert(v[4] == hi8(0u16) && v[5] == lo8(0u16));
    lemma_be16_update(w, 4, 0u16);
    assert(be16(v, 6) == be16(u, 6) && be16(v, 8) == be16(u, 8) && be16(v, 10) == be16(u, 10));
    assert forall|i: int| o1 <= i < u.len() implies u[i] == v[i + d] by { assert(w[i + d] == u[i]); }
    assert forall|i: int| o1 <= i < pf_rrs_end(u, o1, an) implies u[i] == v[i - o1 + 12] by { }
    lemma_pf_rrs_shift(u, o1, an, v, 12);
    assert forall|i: int| e1 <= i < pf_rrs_end(u, e1, ns) implies u[i] == v[i - e1 + (e1 + d)] by { }
    lemma_pf_rrs_shift(u, e1, ns, v, e1 + d);
    assert forall|i: int| e2 <= i < pf_rrs_end(u, e2, ar) implies u[i] == v[i - e2 + (e2 + d)] by { }
    lemma_pf_rrs_shift(u, e2, ar, v, e2 + d);
    lemma_opt_at_shift(u, e2, ar, v, e2 + d);
}
// C08 / C11 (question): the state delete() leaves through the question cursor of a pointer-free packet satisfies the object invariant again
// (the bytes are then a packet without a question, which the parser's policy rejects: open known finding; the structural view is exact)
pub proof fn lemma_q_deleted_wf(fin: ParsedPacket, mid: ParsedPacket)
    requires mid.wf(), pf_packet(mid.bytes()), be16(mid.bytes(), 4) == 1, mid.bytes().len() <= 0xffff,
        deleted(fin, mid, 12, pf_q_end(mid.bytes()), Section::Question, false),
    ensures fin.wf(), pf_packet(fin.bytes()), be16(fin.bytes(), 4) == 0, fin.offset_question.is_none(),
{
    hide(pf_rr); hide(pf_rrs); hide(pf_rrs_end); hide(pf_n_opt); hide(wf_bytes); hide(opts); hide(opt_at); hide(recs_all); hide(sec_end); hide(n_opt);
    hide(walk); hide(exp); hide(pcs_walk); hide(rd_ok); hide(pf_packet);
    let u = mid.bytes(); let v = fin.bytes();
    lemma_wf_offsets(mid);
    lemma_pf_packet_facts(u);
    assert(sec_idx(Section::Question) == 0);
    assert((be16(u, 4) - 1) as u16 == 0u16);
    lemma_q_cut(u, v);
    lemma_pf_packet_facts(v);
    lemma_pf_wf_bytes(u);
    lemma_pf_wf_bytes(v);
    let vu = mid.packet.unwrap(); axiom_vec_len(&vu);
    let vf = fin.packet.unwrap(); axiom_vec_len(&vf);
}
// the question cursor of a well-formed object over a pointer-free packet may be deleted through
pub proof fn lemma_q_del_ok(mid: ParsedPacket)
    requires mid.wf(), pf_packet(mid.bytes()), be16(mid.bytes(), 4) == 1, mid.bytes().len() <= 0xffff
    ensures ({ let u = mid.bytes(); let qe = pcs_end(u, 12).unwrap();
        del_ok(mid, 12, qe, qe + 4, Section::Question) && name_end(u, 12) == Some(qe) && pf_q_end(u) == qe + 4 }),
{
    hide(pf_rr); hide(pf_rrs); hide(pf_rrs_end); hide(pf_n_opt); hide(wf_bytes); hide(opts); hide(opt_at); hide(recs_all); hide(sec_end); hide(n_opt);
    hide(walk); hide(exp); hide(pcs_walk); hide(rd_ok); hide(skip_walk);
    let u = mid.bytes();
    lemma_q_cursor(mid);
    lemma_wf_offsets(mid);
    lemma_pf_packet_facts(u);
    let vu = mid.packet.unwrap(); axiom_vec_len(&vu);
    assert(section_at(mid, Some(12usize)) is Question);
    assert(sec_idx(Section::Question) == 0);
}
