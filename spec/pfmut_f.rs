// ===== spec/pfmut_f.rs: in-place field writes on a pointer-free packet keep the object invariant (C08: header, TTL and address setters) =====
// the first four header bytes (transaction id, flags word) are read by no structural rule
pub proof fn lemma_hdr_wf(fin: ParsedPacket, mid: ParsedPacket)
    requires mid.wf(), pf_packet(mid.bytes()), fin.packet.is_some(), fin.same_meta(&mid), fin.bytes().len() == mid.bytes().len(),
        forall|i: int| 4 <= i < mid.bytes().len() ==> fin.bytes()[i] == mid.bytes()[i],
    ensures fin.wf(), pf_packet(fin.bytes()),
        forall|sj: int, j: int| 1 <= sj <= 3 && 0 <= j < sec_n(mid.bytes(), sj) ==> #[trigger] rec_bytes(fin.bytes(), sec_st(fin.bytes(), sj), j) == rec_bytes(mid.bytes(), sec_st(mid.bytes(), sj), j),
{
    hide(pf_rr); hide(pf_rrs); hide(pf_rrs_end); hide(pf_n_opt); hide(wf_bytes); hide(opts); hide(opt_at); hide(recs_all); hide(sec_end); hide(n_opt);
    hide(walk); hide(exp); hide(pcs_walk); hide(rd_ok); hide(rec_bytes);
    let u = mid.bytes(); let v = fin.bytes();
    let o1 = pf_q_end(u); let an = be16(u, 6) as int; let ns = be16(u, 8) as int; let ar = be16(u, 10) as int; let e1 = pf_e1(u); let e2 = pf_e2(u);
    lemma_wf_offsets(mid);
    lemma_pf_packet_facts(u);
    assert(be16(v, 4) == be16(u, 4) && be16(v, 6) == be16(u, 6) && be16(v, 8) == be16(u, 8) && be16(v, 10) == be16(u, 10));
    if be16(u, 4) == 1 {
        lemma_pcs_bounds(u, 12, 0);
        let qe = pcs_end(u, 12).unwrap();
        assert forall|i: int| 12 <= i < qe implies u[i] == v[i - 12 + 12] by { }
        lemma_pcs_shift(u, 12, v, 12, 0);
        lemma_name_exp_id(u, 12); lemma_name_exp_id(v, 12);
        assert(v.subrange(12, qe) =~= u.subrange(12, qe));
        assert(be16(v, qe) == be16(u, qe) && be16(v, qe + 2) == be16(u, qe + 2));
    }
    assert forall|i: int| o1 <= i < pf_rrs_end(u, o1, an) implies u[i] == v[i - o1 + o1] by { }
    lemma_pf_rrs_shift(u, o1, an, v, o1); lemma_shifted_recs(u, o1, an, v, o1);
    assert forall|i: int| e1 <= i < pf_rrs_end(u, e1, ns) implies u[i] == v[i - e1 + e1] by { }
    lemma_pf_rrs_shift(u, e1, ns, v, e1); lemma_shifted_recs(u, e1, ns, v, e1);
    assert forall|i: int| e2 <= i < pf_rrs_end(u, e2, ar) implies u[i] == v[i - e2 + e2] by { }
    lemma_pf_rrs_shift(u, e2, ar, v, e2); lemma_shifted_recs(u, e2, ar, v, e2);
    lemma_opt_at_shift(u, e2, ar, v, e2);
    assert(pf_packet(v));
    lemma_pf_wf_bytes(u);
    lemma_pf_wf_bytes(v);
    assert forall|sj: int, j: int| 1 <= sj <= 3 && 0 <= j < sec_n(u, sj) implies #[trigger] rec_bytes(v, sec_st(v, sj), j) == rec_bytes(u, sec_st(u, sj), j) by { }
}
// a pointer-free record whose TTL bytes, or whose address bytes (A / AAAA), are overwritten is a pointer-free record of the same extent and type
pub proof fn lemma_pf_rr_window(u: Seq<u8>, off: int, v: Seq<u8>, lo: int, hi: int)
    requires pf_rr(u, off), !pf_is_opt(u, off), 0 <= off, pf_end(u, off) <= v.len(),
        ({ let ne = pcs_end(u, off).unwrap(); let t = be16(u, ne);
           (lo >= ne + 4 && hi <= ne + 8) || ((t == 1 || t == 28) && lo >= ne + 10 && hi <= pf_end(u, off)) }),
        forall|i: int| off <= i < pf_end(u, off) && !(lo <= i < hi) ==> v[i] == u[i],
    ensures pf_rr(v, off), pf_end(v, off) == pf_end(u, off), pcs_end(v, off) == pcs_end(u, off), !pf_is_opt(v, off),
{
    let ne = pcs_end(u, off).unwrap(); let d = ne + 10; let l = be16(u, ne + 8) as int; let t = be16(u, ne);
    lemma_pf_rr_spec(u, off, SecT::Additional, false);
    lemma_pcs_bounds(u, off, 0);
    assert forall|i: int| off <= i < ne implies u[i] == v[i - off + off] by { }
    lemma_pcs_shift(u, off, v, off, 0);
    assert(be16(v, ne) == t) by { assert(u[ne] == v[ne] && u[ne + 1] == v[ne + 1]); }
    assert(be16(v, ne + 8) == be16(u, ne + 8)) by { assert(u[ne + 8] == v[ne + 8] && u[ne + 9] == v[ne + 9]); }
    if t == 2 || t == 5 || t == 12 { assert forall|i: int| d <= i < d + l implies u[i] == v[i - d + d] by { } lemma_pcs_shift(u, d, v, d, 0); }
    else if t == 15 { assert forall|i: int| d + 2 <= i < d + l implies u[i] == v[i - (d + 2) + (d + 2)] by { } lemma_pcs_shift(u, d + 2, v, d + 2, 0); }
    else if t == 6 { let n1 = pcs_end(u, d).unwrap(); lemma_pcs_bounds(u, d, 0); lemma_pcs_bounds(u, n1, 0);
        assert forall|i: int| d <= i < n1 implies u[i] == v[i - d + d] by { } lemma_pcs_shift(u, d, v, d, 0);
        assert forall|i: int| n1 <= i < pcs_end(u, n1).unwrap() implies u[i] == v[i - n1 + n1] by { } lemma_pcs_shift(u, n1, v, n1, 0); }
    else if t == 39 { assert forall|i: int| d <= i < d + l implies u[i] == v[i - d + d] by { } lemma_plain_shift(u, d, v, d, 0); }
}
// the object after such a write into record k of record section si
pub proof fn lemma_field_wf(fin: ParsedPacket, mid: ParsedPacket, si: int, k: int, lo: int, hi: int)
    requires mid.wf(), pf_packet(mid.bytes()), 1 <= si <= 3, 0 <= k < sec_n(mid.bytes(), si), fin.packet.is_some(), fin.same_meta(&mid), fin.bytes().len() == mid.bytes().len(),
        ({ let u = mid.bytes(); let o = pf_rrs_end(u, sec_st(u, si), k); let ne = pcs_end(u, o).unwrap(); let t = be16(u, ne);
           !pf_is_opt(u, o) && ((lo >= ne + 4 && hi <= ne + 8) || ((t == 1 || t == 28) && lo >= ne + 10 && hi <= pf_end(u, o))) }),
        forall|i: int| 0 <= i < mid.bytes().len() && !(lo <= i < hi) ==> fin.bytes()[i] == mid.bytes()[i],
    ensures fin.wf(), pf_packet(fin.bytes()), others_kept(mid.bytes(), fin.bytes(), si, k, 1, 1),
        ({ let u = mid.bytes(); let v = fin.bytes(); let o = pf_rrs_end(u, sec_st(u, si), k);
           sec_st(v, si) == sec_st(u, si) && sec_n(v, si) == sec_n(u, si) && pf_rrs_end(v, sec_st(u, si), k) == o && pf_rr(v, o) && pf_end(v, o) == pf_end(u, o) && pcs_end(v, o) == pcs_end(u, o) && !pf_is_opt(v, o) }),
{
    hide(pf_rr); hide(pf_rrs); hide(pf_rrs_end); hide(pf_n_opt); hide(pf_packet); hide(opt_at); hide(ParsedPacket::wf); hide(pcs_walk);
    let u = mid.bytes(); let v = fin.bytes(); let st = sec_st(u, si); let n = sec_n(u, si); let o = pf_rrs_end(u, st, k); let ne = pcs_end(u, o).unwrap(); let next = pf_end(u, o);
    lemma_wf_offsets(mid);
    lemma_section_at(mid, si, k);
    lemma_pf_packet_facts(u);
    lemma_opt_at_3(u, st, n, k, 1);
    lemma_pf_rr_spec(u, o, SecT::Answer, false);
    lemma_pcs_bounds(u, o, 0);
    assert(pcs_end(u, o).is_some() && o < ne && ne + 10 <= next && next <= u.len()) by { reveal(pf_rr); }
    lemma_pf_rr_window(u, o, v, lo, hi);
    assert(pkt_edit_pre(u, v, si, k, 1, next - o, 1)) by {
        assert(pf_rrs_end(u, st, k + 1) == next);
        assert(be16(v, 4 + 2 * si) == be16(u, 4 + 2 * si)) by { assert(v[4 + 2 * si] == u[4 + 2 * si] && v[5 + 2 * si] == u[5 + 2 * si]); }
        assert forall|i: int| next <= i < u.len() implies #[trigger] v[i + ((next - o) - (next - o))] == u[i] by { }
    }
    assert(edited(fin, mid, si, k, 1, next - o, 1));
    lemma_edit_wf(fin, mid, si, k, 1, next - o, 1);
    lemma_pkt_edit(u, v, si, k, 1, next - o, 1);
    lemma_pkt_edit_recs(u, v, si, k, 1, next - o, 1);
}
