// ===== spec/clients_u3.rs: "getter returns what was set" -- verified clients that see only the contracts above =====
// (not repo code; each is a lemma over the contracts of the repo functions it calls)
fn client_set_get_tid(pp: &mut ParsedPacket, t: u16) -> (r: u16)
    requires old(pp).has_hdr()
    ensures r == t, forall|i: int| 2 <= i < old(pp).bytes().len() ==> final(pp).bytes()[i] == old(pp).bytes()[i], final(pp).bytes().len() == old(pp).bytes().len()
{ pp.set_tid(t); pp.tid() }

fn client_set_get_flags(pp: &mut ParsedPacket, f: u32) -> (r: u32)
    requires old(pp).has_hdr()
    ensures r & 0xffffu32 == f & 0x87f0u32,                                  // the eight flag bits of the low half, nothing else
            r >> 16 == (match old(pp).ext_flags { Some(x) => x, None => 0u16 }) as u32,   // the upper half still comes from EDNS
            forall|i: int| 0 <= i < old(pp).bytes().len() && i != 2 && i != 3 ==> final(pp).bytes()[i] == old(pp).bytes()[i],
            final(pp).bytes().len() == old(pp).bytes().len(),
{
    pp.set_flags(f);
    let r = pp.flags();
    proof {
        let w = be16(pp.bytes(), 2); let e = (match pp.ext_flags { Some(x) => x, None => 0u16 });
        assert(w & 0x87f0u16 == ((f & 0xffff) as u16) & 0x87f0u16);
        assert((((e as u32) << 16) | ((w & 0x87f0u16) as u32)) >> 16 == e as u32) by(bit_vector);
        assert((w & 0x87f0u16 == ((f & 0xffff) as u16) & 0x87f0u16) ==> ((((e as u32) << 16) | ((w & 0x87f0u16) as u32)) & 0xffffu32 == f & 0x87f0u32)) by(bit_vector);
    }
    r
}

// set_flags never disturbs opcode or rcode as read back by their getters
fn client_flags_keep_codes(pp: &mut ParsedPacket, f: u32) -> (r: (u8, u8, u8, u8))
    requires old(pp).has_hdr()
    ensures r.0 == r.2, r.1 == r.3
{
    let o0 = pp.opcode(); let c0 = pp.rcode();
    pp.set_flags(f);
    let o1 = pp.opcode(); let c1 = pp.rcode();
    proof {
        let w0 = be16(old(pp).bytes(), 2); let w1 = be16(pp.bytes(), 2);
        assert((w1 & 0x780fu16 == w0 & 0x780fu16) ==> ((w1 & 0x7800u16) >> 11 == (w0 & 0x7800u16) >> 11 && w1 & 0x000fu16 == w0 & 0x000fu16)) by(bit_vector);
    }
    (o0, c0, o1, c1)
}

fn client_set_get_rcode(pp: &mut ParsedPacket, c: u8) -> (r: u8)
    requires old(pp).has_hdr()
    ensures r == c & 0x0fu8, forall|i: int| 0 <= i < old(pp).bytes().len() && i != 3 ==> final(pp).bytes()[i] == old(pp).bytes()[i], final(pp).bytes().len() == old(pp).bytes().len()
{ pp.set_rcode(c); pp.rcode() }

fn client_set_get_opcode(pp: &mut ParsedPacket, c: u8) -> (r: u8)
    requires old(pp).has_hdr()
    ensures r == c & 0x0fu8, forall|i: int| 0 <= i < old(pp).bytes().len() && i != 2 ==> final(pp).bytes()[i] == old(pp).bytes()[i], final(pp).bytes().len() == old(pp).bytes().len()
{ pp.set_opcode(c); pp.opcode() }

fn client_set_get_response(pp: &mut ParsedPacket, b: bool) -> (r: bool)
    requires old(pp).has_hdr()
    ensures r == b, forall|i: int| 0 <= i < old(pp).bytes().len() && i != 2 && i != 3 ==> final(pp).bytes()[i] == old(pp).bytes()[i], final(pp).bytes().len() == old(pp).bytes().len()
{ pp.set_response(b); pp.is_response() }

// opcode / rcode setters leave the other header fields as read by the getters alone
fn client_rcode_keeps_rest(pp: &mut ParsedPacket, c: u8) -> (r: (u32, u32, u8, u8))
    requires old(pp).has_hdr()
    ensures r.0 == r.1, r.2 == r.3
{
    let f0 = pp.flags(); let o0 = pp.opcode();
    pp.set_rcode(c);
    let f1 = pp.flags(); let o1 = pp.opcode();
    proof {
        let a = old(pp).bytes()[2]; let b0 = old(pp).bytes()[3]; let b1 = pp.bytes()[3];
        assert((b1 & 0xf0u8 == b0 & 0xf0u8) ==> ((((a as u16) << 8) | (b1 as u16)) & 0x87f0u16 == (((a as u16) << 8) | (b0 as u16)) & 0x87f0u16)) by(bit_vector);
    }
    (f0, f1, o0, o1)
}
fn client_opcode_keeps_rest(pp: &mut ParsedPacket, c: u8) -> (r: (u32, u32, u8, u8))
    requires old(pp).has_hdr()
    ensures r.0 == r.1, r.2 == r.3
{
    let f0 = pp.flags(); let c0 = pp.rcode();
    pp.set_opcode(c);
    let f1 = pp.flags(); let c1 = pp.rcode();
    proof {
        let b = old(pp).bytes()[3]; let a0 = old(pp).bytes()[2]; let a1 = pp.bytes()[2];
        assert((a1 & 0x87u8 == a0 & 0x87u8) ==> ((((a1 as u16) << 8) | (b as u16)) & 0x87f0u16 == (((a0 as u16) << 8) | (b as u16)) & 0x87f0u16)) by(bit_vector);
    }
    (f0, f1, c0, c1)
}
