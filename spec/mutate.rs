// ===== spec/mutate.rs: exact effects of the mutating operations on the packet object (C09) and the object invariant (C08) =====
impl ParsedPacket {
    // C08: the object's view is the decode of its bytes (wf), and when the flag says "no pointers" there are none
    pub open spec fn wf_struct(&self) -> bool { self.wf() && (!self.maybe_compressed ==> pf_packet(self.bytes())) }
    // the EDNS summary equals the decode of the bytes (what recompute() asserts at run time)
    pub open spec fn edns_ok(&self) -> bool { edns_match(*self, self.bytes()) }
}
pub open spec fn edns_match(pp: ParsedPacket, p: Seq<u8>) -> bool {
    match opt_at(p, sec_start(p, Section::Additional), sec_count(p, Section::Additional)) {
        None => pp.edns_count == 0 && pp.ext_rcode.is_none() && pp.edns_version.is_none() && pp.ext_flags.is_none(),
        Some(o) => opts(p, o + 10, o + 10 + be16(p, o + 8)) == Some(pp.edns_count as int)
            && pp.ext_rcode == Some(p[o + 4]) && pp.edns_version == Some(p[o + 5]) && pp.ext_flags == Some(be16(p, o + 6)),
    }
}
// ASSUMED link (not mechanised): decompression copies the OPT record verbatim, so the EDNS summary of the object also
// describes the decompressed bytes.  Needed only for the run-time assert_eq!s of recompute().
pub open spec fn unc_keeps_edns(pp: ParsedPacket) -> bool { pp.maybe_compressed ==> edns_match(pp, uncompress_spec(pp.bytes())) }
// state after the optional in-place decompression that precedes a resizing mutation
pub open spec fn after_unc(mid: ParsedPacket, old: ParsedPacket) -> bool {
    if old.maybe_compressed {
        mid.packet.is_some() && mid.bytes() == uncompress_spec(old.bytes()) && mid.wf() && !mid.maybe_compressed && mid.cached.is_none()
        && mid.max_payload == old.max_payload
    } else { pp_eq(mid, old) }
}
// same bytes, same fields
pub open spec fn pp_eq(a: ParsedPacket, b: ParsedPacket) -> bool {
    a.packet.is_some() == b.packet.is_some() && (a.packet.is_some() ==> a.bytes() == b.bytes()) && a.same_meta(&b)
}
pub open spec fn sec_idx(s: Section) -> int { match s { Section::Question => 0, Section::Answer => 1, Section::NameServers => 2, _ => 3 } }
pub open spec fn or_u(a: Option<usize>, b: Option<usize>) -> Option<usize> { if a.is_some() { a } else { b } }
pub open spec fn shift_u(a: Option<usize>, d: int) -> Option<usize> { match a { Some(x) => Some((x + d) as usize), None => None } }
// C09: "inserting appends the given record at the end of the chosen section"
pub open spec fn ins_point(mid: ParsedPacket, s: Section) -> int {
    let len = mid.bytes().len() as int;
    match s {
        Section::Question => match or_u(mid.offset_answers, or_u(mid.offset_nameservers, mid.offset_additional)) { Some(x) => x as int, None => len },
        Section::Answer => match or_u(mid.offset_nameservers, mid.offset_additional) { Some(x) => x as int, None => len },
        Section::NameServers => match mid.offset_additional { Some(x) => x as int, None => len },
        _ => len,
    }
}
pub open spec fn inserted(fin: ParsedPacket, mid: ParsedPacket, s: Section, rr: Seq<u8>) -> bool {
    let u = mid.bytes(); let ins = ins_point(mid, s); let n = rr.len() as int; let cp = 4 + 2 * sec_idx(s);
    let u1 = set2(u, cp, (be16(u, cp) + 1) as u16);        // only this section's count goes up by one
    fin.packet.is_some() && fin.bytes() == u1.subrange(0, ins) + rr + u1.subrange(ins, u.len() as int)
    && fin.offset_question == (if s is Question { or_u(mid.offset_question, Some(ins as usize)) } else { mid.offset_question })
    && fin.offset_answers == (if s is Answer { or_u(mid.offset_answers, Some(ins as usize)) } else if s is Question { shift_u(mid.offset_answers, n) } else { mid.offset_answers })
    && fin.offset_nameservers == (if s is NameServers { or_u(mid.offset_nameservers, Some(ins as usize)) } else if s is Question || s is Answer { shift_u(mid.offset_nameservers, n) } else { mid.offset_nameservers })
    && fin.offset_additional == (if s is Additional { or_u(mid.offset_additional, Some(ins as usize)) } else { shift_u(mid.offset_additional, n) })
    && fin.offset_edns == (if s is Additional { mid.offset_edns } else { shift_u(mid.offset_edns, n) })
    && fin.edns_count == mid.edns_count && fin.ext_rcode == mid.ext_rcode && fin.edns_version == mid.edns_version && fin.ext_flags == mid.ext_flags
    && fin.maybe_compressed == mid.maybe_compressed && fin.max_payload == mid.max_payload && fin.cached == mid.cached
}

// the insertion point of a section is a position inside the packet, at or after the header
pub proof fn lemma_ins_point(mid: ParsedPacket, s: Section)
    requires mid.wf()
    ensures 12 <= ins_point(mid, s) <= mid.bytes().len(), mid.packet.is_some(), mid.bytes().len() <= usize::MAX,
        mid.offset_answers matches Some(x) ==> 12 <= x <= mid.bytes().len(),
        mid.offset_nameservers matches Some(x) ==> 12 <= x <= mid.bytes().len(),
        mid.offset_additional matches Some(x) ==> 12 <= x <= mid.bytes().len(),
        mid.offset_edns matches Some(x) ==> 12 <= x <= mid.bytes().len(),
{
    let p = mid.bytes();
    lemma_wf_bytes_facts(p);
    lemma_opt_at_facts(p, sec_start(p, Section::Additional), sec_count(p, Section::Additional));
    let v = mid.packet.unwrap(); axiom_vec_len(&v);
}
