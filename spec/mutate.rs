// ===== spec/mutate.rs: exact effects of the mutating operations on the packet object (C09) and the object invariant (C08) =====
impl ParsedPacket {
    // C08: the object's view is the decode of its bytes (wf), and when the flag says "no pointers" there are none
    pub open spec fn wf_struct(&self) -> bool { self.wf() && (!self.maybe_compressed ==> pf_packet(self.bytes())) }
    // the EDNS summary equals the decode of the bytes (what recompute() asserts at run time)
    pub open spec fn edns_ok(&self) -> bool { edns_match(*self, self.bytes()) }
}
pub open spec fn edns_match(pp: ParsedPacket, p: Seq<u8>) -> bool {
    match opt_at(p, sec_start(p, Section::Additional), sec_count(p, Section::Additional)) {
        None => pp.edns_count == 0 && pp.ext_rcode.is_none() && pp.edns_version.is_none() && pp.ext_flags.is_none(),
        Some(o) => opts(p, o + 10, o + 10 + be16(p, o + 8)) == Some(pp.edns_count as int)
            && pp.ext_rcode == Some(p[o + 4]) && pp.edns_version == Some(p[o + 5]) && pp.ext_flags == Some(be16(p, o + 6)),
    }
}
// decompression copies the OPT record verbatim, so the EDNS summary of the object also describes the decompressed bytes
// (proved for every well-formed object: lemma_unc_keeps_edns in spec/pfedns.rs).  Needed for the run-time assert_eq!s of recompute().
pub open spec fn unc_keeps_edns(pp: ParsedPacket) -> bool { pp.maybe_compressed ==> edns_match(pp, uncompress_spec(pp.bytes())) }
// state after the optional in-place decompression that precedes a resizing mutation
pub open spec fn after_unc(mid: ParsedPacket, old: ParsedPacket) -> bool {
    if old.maybe_compressed {
        mid.packet.is_some() && mid.bytes() == uncompress_spec(old.bytes()) && mid.wf() && !mid.maybe_compressed && mid.cached.is_none()
        && mid.max_payload == old.max_payload
    } else { pp_eq(mid, old) }
}
// same bytes, same fields
pub open spec fn pp_eq(a: ParsedPacket, b: ParsedPacket) -> bool {
    a.packet.is_some() == b.packet.is_some() && (a.packet.is_some() ==> a.bytes() == b.bytes()) && a.same_meta(&b)
}
pub open spec fn sec_idx(s: Section) -> int { match s { Section::Question => 0, Section::Answer => 1, Section::NameServers => 2, _ => 3 } }
pub open spec fn or_u(a: Option<usize>, b: Option<usize>) -> Option<usize> { if a.is_some() { a } else { b } }
pub open spec fn shift_u(a: Option<usize>, d: int) -> Option<usize> { match a { Some(x) => Some((x + d) as usize), None => None } }
// C09: "inserting appends the given record at the end of the chosen section"
pub open spec fn ins_point(mid: ParsedPacket, s: Section) -> int {
    let len = mid.bytes().len() as int;
    match s {
        Section::Question => match or_u(mid.offset_answers, or_u(mid.offset_nameservers, mid.offset_additional)) { Some(x) => x as int, None => len },
        Section::Answer => match or_u(mid.offset_nameservers, mid.offset_additional) { Some(x) => x as int, None => len },
        Section::NameServers => match mid.offset_additional { Some(x) => x as int, None => len },
        _ => len,
    }
}
pub open spec fn inserted(fin: ParsedPacket, mid: ParsedPacket, s: Section, rr: Seq<u8>) -> bool {
    let u = mid.bytes(); let ins = ins_point(mid, s); let n = rr.len() as int; let cp = 4 + 2 * sec_idx(s);
    let u1 = set2(u, cp, (be16(u, cp) + 1) as u16);        // only this section's count goes up by one
    fin.packet.is_some() && be16(u, cp) < 0xffff && fin.bytes() == u1.subrange(0, ins) + rr + u1.subrange(ins, u.len() as int)
    && fin.offset_question == (if s is Question { or_u(mid.offset_question, Some(ins as usize)) } else { mid.offset_question })
    && fin.offset_answers == (if s is Answer { or_u(mid.offset_answers, Some(ins as usize)) } else if s is Question { shift_u(mid.offset_answers, n) } else { mid.offset_answers })
    && fin.offset_nameservers == (if s is NameServers { or_u(mid.offset_nameservers, Some(ins as usize)) } else if s is Question || s is Answer { shift_u(mid.offset_nameservers, n) } else { mid.offset_nameservers })
    && fin.offset_additional == (if s is Additional { or_u(mid.offset_additional, Some(ins as usize)) } else { shift_u(mid.offset_additional, n) })
    && fin.offset_edns == (if s is Additional { mid.offset_edns } else { shift_u(mid.offset_edns, n) })
    && fin.edns_count == mid.edns_count && fin.ext_rcode == mid.ext_rcode && fin.edns_version == mid.edns_version && fin.ext_flags == mid.ext_flags
    && fin.maybe_compressed == mid.maybe_compressed && fin.max_payload == mid.max_payload && fin.cached == mid.cached
}

// the insertion point of a section is a position inside the packet, at or after the header
pub proof fn lemma_ins_point(mid: ParsedPacket, s: Section)
    requires mid.wf()
    ensures 12 <= ins_point(mid, s) <= mid.bytes().len(), mid.packet.is_some(), mid.bytes().len() <= usize::MAX,
        mid.offset_answers matches Some(x) ==> 12 <= x <= mid.bytes().len(),
        mid.offset_nameservers matches Some(x) ==> 12 <= x <= mid.bytes().len(),
        mid.offset_additional matches Some(x) ==> 12 <= x <= mid.bytes().len(),
        mid.offset_edns matches Some(x) ==> 12 <= x <= mid.bytes().len(),
{
    let p = mid.bytes();
    lemma_wf_bytes_facts(p);
    lemma_opt_at_facts(p, sec_start(p, Section::Additional), sec_count(p, Section::Additional));
    let v = mid.packet.unwrap(); axiom_vec_len(&v);
}

// ---- resize_rr: the record at `off` grows or shrinks by d bytes
pub open spec fn shift_ok(a: Option<usize>, d: int) -> bool { a matches Some(x) ==> x <= 0xffff && 0 <= x + d }
pub open spec fn edns_after(e: Option<usize>, off: usize, d: int) -> Option<usize> {
    match e { Some(x) => if off < x { Some((x + d) as usize) } else { Some(x) }, None => None }
}
pub open spec fn resize_pre(pp: ParsedPacket, offopt: Option<usize>, next: int, d: int) -> bool {
    pp.bytes().len() <= 0xffff && -0x10000 <= d <= 0x10000 && (offopt matches Some(off) ==> {
        let s = section_at(pp, offopt);
        off <= pp.bytes().len() && (d < 0 ==> off - d <= pp.bytes().len()) && 0 <= next <= pp.bytes().len() && 0 <= next + d
        && !opt_lt(offopt, pp.offset_question)
        && (pp.offset_edns matches Some(e) ==> e <= 0xffff)
        && (!(s is Additional) ==> shift_ok(pp.offset_additional, d))
        && (s is Answer || s is Question ==> shift_ok(pp.offset_nameservers, d))
        && (s is Question ==> shift_ok(pp.offset_answers, d))
    })
}
pub open spec fn resized(fin: ParsedPacket, old: ParsedPacket, off: usize, d: int) -> bool {
    let u = old.bytes(); let v = fin.bytes(); let s = section_at(old, Some(off)); let len = u.len() as int;
    fin.packet.is_some() && v.len() == len + d && v.subrange(0, off as int) == u.subrange(0, off as int)
    && (if d > 0 { v.subrange(off + d, len + d) == u.subrange(off as int, len) } else { v.subrange(off as int, len + d) == u.subrange(off - d, len) })
    && fin.offset_question == old.offset_question
    && fin.offset_answers == (if s is Question { shift_u(old.offset_answers, d) } else { old.offset_answers })
    && fin.offset_nameservers == (if s is Question || s is Answer { shift_u(old.offset_nameservers, d) } else { old.offset_nameservers })
    && fin.offset_additional == (if s is Additional { old.offset_additional } else { shift_u(old.offset_additional, d) })
    && fin.offset_edns == edns_after(old.offset_edns, off, d)
    && fin.edns_count == old.edns_count && fin.ext_rcode == old.ext_rcode && fin.edns_version == old.edns_version && fin.ext_flags == old.ext_flags
    && fin.maybe_compressed == old.maybe_compressed && fin.max_payload == old.max_payload && fin.cached == old.cached
}

// ---- set_raw_name / delete: the cursor (off, ne, next) designates a record whose name ends at ne and which ends at next
pub open spec fn splice(u: Seq<u8>, a: int, b: int, w: Seq<u8>) -> Seq<u8> { u.subrange(0, a) + w + u.subrange(b, u.len() as int) }
pub open spec fn later_ok(a: Option<usize>, next: int, len: int) -> bool { a matches Some(x) ==> next <= x <= len }
// every section offset that moves when this record changes size lies at or after the end of the record
pub open spec fn cursor_ok(pp: ParsedPacket, off: usize, ne: int, next: int) -> bool {
    let s = section_at(pp, Some(off)); let len = pp.bytes().len() as int;
    pp.packet.is_some() && len <= 0xffff && off <= ne <= next <= len && off < next && !opt_lt(Some(off), pp.offset_question)
    && (pp.offset_edns matches Some(e) ==> e <= len && (off < e ==> ne <= e))
    && (!(s is Additional) ==> later_ok(pp.offset_additional, next, len))
    && (s is Answer || s is Question ==> later_ok(pp.offset_nameservers, next, len))
    && (s is Question ==> later_ok(pp.offset_answers, next, len))
}
pub proof fn lemma_cursor_resize(pp: ParsedPacket, off: usize, ne: int, next: int, d: int)
    requires cursor_ok(pp, off, ne, next), off - ne <= d <= 0x10000 || d == off - next
    ensures resize_pre(pp, Some(off), next, d)
{ }
// what the trait-level code needs to know about the (decompressed) packet it is about to edit; T says how this kind of cursor decodes its record
pub open spec fn mid_ok<T: DNSIterable + ?Sized>(mid: ParsedPacket, o: usize, ne: int, next: int) -> bool {
    cursor_ok(mid, o, ne, next) && skip_walk(mid.bytes().subrange(o as int, ne), 0) == Some(ne - o)
    && forall|nm: Seq<u8>| is_cname(nm) ==> #[trigger] T::trec_ok(splice(mid.bytes(), o as int, ne, nm), o as int)
}
// C09: "setting a name replaces only that record's owner name"
pub open spec fn named(fin: ParsedPacket, mid: ParsedPacket, off: usize, ne: int, nm: Seq<u8>) -> bool {
    let s = section_at(mid, Some(off)); let d = nm.len() - (ne - off);
    fin.packet.is_some() && fin.bytes() == splice(mid.bytes(), off as int, ne, nm)
    && fin.offset_question == mid.offset_question
    && fin.offset_answers == (if s is Question { shift_u(mid.offset_answers, d) } else { mid.offset_answers })
    && fin.offset_nameservers == (if s is Question || s is Answer { shift_u(mid.offset_nameservers, d) } else { mid.offset_nameservers })
    && fin.offset_additional == (if s is Additional { mid.offset_additional } else { shift_u(mid.offset_additional, d) })
    && fin.offset_edns == edns_after(mid.offset_edns, off, d)
    && fin.edns_count == mid.edns_count && fin.ext_rcode == mid.ext_rcode && fin.edns_version == mid.edns_version && fin.ext_flags == mid.ext_flags
    && fin.maybe_compressed == mid.maybe_compressed && fin.max_payload == mid.max_payload && fin.cached.is_none()
}
// a name accepted on its own (checked from offset 0 of its own buffer) cannot contain a pointer: there is nothing below offset 0
pub proof fn lemma_walk0_pcs(p: Seq<u8>, off: int, refs: int, nlen: int)
    requires walk(p, off, p.len() as int, 0, refs, nlen, None).is_some()
    ensures pcs_walk(p, off, nlen) == walk(p, off, p.len() as int, 0, refs, nlen, None)
    decreases p.len() - off
{
    let b = p[off];
    if b & 0xc0 == 0xc0 { } else if b == 0 { } else { lemma_walk0_pcs(p, off + b + 1, refs, nlen + b + 1); }
}
pub proof fn lemma_own_name(nm: Seq<u8>)
    requires name_end(nm, 0).is_some()
    ensures is_cname(nm.subrange(0, name_end(nm, 0).unwrap())), 1 <= name_end(nm, 0).unwrap() <= nm.len(), name_end(nm, 0).unwrap() <= 255,
{
    lemma_walk0_pcs(nm, 0, 16, 0);
    lemma_pcs_bounds(nm, 0, 0);
    let e = pcs_walk(nm, 0, 0).unwrap(); let s = nm.subrange(0, e);
    assert forall|i: int| 0 <= i < e implies nm[i] == s[i - 0 + 0] by { }
    lemma_pcs_shift(nm, 0, s, 0, 0);
    lemma_pcs_plain(nm, 0, 0); lemma_plain_len(nm, 0, 0);
}

// after the tail has moved by d = n - (ne - off), writing the n bytes of the new name at off gives the splice
pub proof fn lemma_resized_splice(u: Seq<u8>, v: Seq<u8>, off: int, ne: int, nm: Seq<u8>)
    requires 0 <= off <= ne <= u.len(), ({ let d = nm.len() - (ne - off); let len = u.len() as int;
        v.len() == len + d && v.subrange(0, off) == u.subrange(0, off)
        && (if d > 0 { v.subrange(off + d, len + d) == u.subrange(off, len) } else { v.subrange(off, len + d) == u.subrange(off - d, len) }) }),
    ensures v.subrange(0, off) + nm + v.subrange(off + nm.len(), v.len() as int) == splice(u, off, ne, nm)
{
    let d = nm.len() - (ne - off); let len = u.len() as int; let n = nm.len() as int;
    let a = v.subrange(off + n, v.len() as int); let b = u.subrange(ne, len);
    assert(a.len() == b.len());
    assert forall|j: int| 0 <= j < a.len() implies a[j] == b[j] by {
        if d > 0 { assert(v.subrange(off + d, len + d)[ne - off + j] == u.subrange(off, len)[ne - off + j]); }
        else { assert(v.subrange(off, len + d)[n + j] == u.subrange(off - d, len)[n + j]); }
    }
    assert(a =~= b);
}

// ---- delete: C09 "deleting removes only that record and lowers only its section's count"
pub open spec fn none_if(c: bool, a: Option<usize>) -> Option<usize> { if c { None } else { a } }
pub open spec fn del_ok(mid: ParsedPacket, o: usize, ne: int, next: int, s: Section) -> bool {
    cursor_ok(mid, o, ne, next) && section_at(mid, Some(o)) == s && 12 <= o && be16(mid.bytes(), 4 + 2 * sec_idx(s)) > 0
}
pub open spec fn deleted(fin: ParsedPacket, mid: ParsedPacket, off: usize, next: int, s: Section, was_opt: bool) -> bool {
    let u = mid.bytes(); let d = off - next; let cp = 4 + 2 * sec_idx(s); let c = (be16(u, cp) - 1) as u16; let z = c == 0;
    fin.packet.is_some() && fin.bytes() == set2(splice(u, off as int, next, Seq::<u8>::empty()), cp, c)
    && fin.offset_question == none_if(z && s is Question, mid.offset_question)
    && fin.offset_answers == none_if(z && s is Answer, if s is Question { shift_u(mid.offset_answers, d) } else { mid.offset_answers })
    && fin.offset_nameservers == none_if(z && s is NameServers, if s is Question || s is Answer { shift_u(mid.offset_nameservers, d) } else { mid.offset_nameservers })
    && fin.offset_additional == none_if(z && s is Additional, if s is Additional { mid.offset_additional } else { shift_u(mid.offset_additional, d) })
    && (if was_opt { fin.offset_edns.is_none() && fin.edns_count == 0 && fin.ext_rcode.is_none() && fin.edns_version.is_none() && fin.ext_flags.is_none() }
        else { fin.offset_edns == edns_after(mid.offset_edns, off, d) && fin.edns_count == mid.edns_count && fin.ext_rcode == mid.ext_rcode
               && fin.edns_version == mid.edns_version && fin.ext_flags == mid.ext_flags })
    && fin.maybe_compressed == mid.maybe_compressed && fin.max_payload == mid.max_payload && fin.cached.is_none()
}

// the reader-level invariant does not involve the "may contain pointers" flag
pub proof fn lemma_wf_flag(a: ParsedPacket, b: ParsedPacket)
    requires a.wf(), b.packet == a.packet, b.same_meta_nocache(&ParsedPacket { maybe_compressed: b.maybe_compressed, ..a }), b.cached == a.cached
    ensures b.wf()
{ }
