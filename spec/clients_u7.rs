// ===== spec/clients_u7.rs: verified client of the compressor's and the decompressor's contracts (not repo code).  It proves, from the two contracts
// alone, the last clause of C06 about the real composition Compress::uncompress(Compress::compress(p)). =====
pub fn client_compress_roundtrip(packet: &[u8]) -> (r: Vec<u8>)
    requires wf_packet(packet@), pf_packet(packet@)
    ensures
        // "decompressing the result gives back the input up to name case": the round trip succeeds and returns an accepted pointer-free packet of the
        // input's length that carries the input's message -- header, question, every record in order, names up to ASCII case, all else byte for byte
        wf_packet(r@), pf_packet(r@), r@.len() == packet@.len(), msg_ci(r@, packet@),
{
    match Compress::compress(packet) {
        Ok(c) => match Compress::uncompress(c.as_slice()) {
            Ok(u) => { proof { theorem_c06_roundtrip(c@, packet@); } u }
            Err(_) => { proof { assert(false); } Vec::new() }
        },
        Err(_) => { proof { assert(false); } Vec::new() }
    }
}
