// ===== spec/pp_basic.rs: views of ParsedPacket used by the header accessors =====
impl ParsedPacket {
    pub open spec fn has_hdr(&self) -> bool { self.packet.is_some() && self.packet.unwrap().len() >= 12 }
    pub open spec fn bytes(&self) -> Seq<u8> { self.packet.unwrap()@ }
    // every field except the bytes is the same
    pub open spec fn same_meta(&self, o: &ParsedPacket) -> bool {
        self.offset_question == o.offset_question && self.offset_answers == o.offset_answers
        && self.offset_nameservers == o.offset_nameservers && self.offset_additional == o.offset_additional
        && self.offset_edns == o.offset_edns && self.edns_count == o.edns_count && self.ext_rcode == o.ext_rcode
        && self.edns_version == o.edns_version && self.ext_flags == o.ext_flags
        && self.maybe_compressed == o.maybe_compressed && self.max_payload == o.max_payload && self.cached == o.cached
    }
    // every field except the bytes and the question cache is the same
    pub open spec fn same_meta_nocache(&self, o: &ParsedPacket) -> bool {
        self.offset_question == o.offset_question && self.offset_answers == o.offset_answers
        && self.offset_nameservers == o.offset_nameservers && self.offset_additional == o.offset_additional
        && self.offset_edns == o.offset_edns && self.edns_count == o.edns_count && self.ext_rcode == o.ext_rcode
        && self.edns_version == o.edns_version && self.ext_flags == o.ext_flags
        && self.maybe_compressed == o.maybe_compressed && self.max_payload == o.max_payload
    }
}
// C12: the bits a flags update may touch: QR AA TC RD RA Z AD CD
pub open spec fn flag_mask() -> u16 { 0x87f0u16 }
pub open spec fn set2(p: Seq<u8>, o: int, v: u16) -> Seq<u8> { p.update(o, hi8(v)).update(o + 1, lo8(v)) }
