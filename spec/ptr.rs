// ===== spec/ptr.rs: compressed names inside a growing output buffer (C06: "every pointer designates, in the output, the suffix it stands for") =====
// number of compression pointers the walk follows (same recursion as `walk`; meaningful where `walk` succeeds)
pub open spec fn hops(p: Seq<u8>, off: int, barrier: int, lowest: int, refs: int, nlen: int) -> int
    decreases refs, p.len() - off
{
    if !(0 <= lowest <= off && refs >= 0) { 0 }
    else if off >= barrier || off >= p.len() { 0 }
    else { let b = p[off];
        if b & 0xc0 == 0xc0 {
            if refs <= 0 || off + 2 > p.len() { 0 }
            else { let t = ptr_target(b, p[off + 1]);
                if t >= lowest { 0 } else if p[t] == 0 { 0 } else { 1 + hops(p, t, lowest, t, refs - 1, nlen) } }
        } else if b > 63 { 0 } else if off + b + 1 > p.len() { 0 } else if nlen + b + 1 > 255 { 0 }
        else if has_bad(p, off + 1, off + 1 + b) { 0 } else if b == 0 { 0 }
        else { hops(p, off + b + 1, barrier, lowest, refs, nlen + b + 1) } }
}


// the walk reads no byte of the window [w0, w1) (same recursion as `walk`; meaningful where `walk` succeeds)
pub open spec fn avoid(p: Seq<u8>, off: int, barrier: int, lowest: int, refs: int, nlen: int, w0: int, w1: int) -> bool
    decreases refs, p.len() - off
{
    if !(0 <= lowest <= off && refs >= 0) { true }
    else if off >= barrier || off >= p.len() { true }
    else { let b = p[off];
        if b & 0xc0 == 0xc0 {
            if refs <= 0 || off + 2 > p.len() { true }
            else { let t = ptr_target(b, p[off + 1]);
                (off + 2 <= w0 || off >= w1) && (if t >= lowest { true } else if p[t] == 0 { true } else { avoid(p, t, lowest, t, refs - 1, nlen, w0, w1) }) }
        } else if b > 63 { true } else if off + b + 1 > p.len() { true } else if nlen + b + 1 > 255 { true }
        else if has_bad(p, off + 1, off + 1 + b) { true }
        else { (off + b + 1 <= w0 || off >= w1) && (if b == 0 { true } else { avoid(p, off + b + 1, barrier, lowest, refs, nlen + b + 1, w0, w1) }) } }
}
pub proof fn lemma_hops_bounds(p: Seq<u8>, off: int, barrier: int, lowest: int, refs: int, nlen: int)
    ensures 0 <= hops(p, off, barrier, lowest, refs, nlen) <= (if refs >= 0 { refs } else { 0 })
    decreases refs, p.len() - off
{
    if !(0 <= lowest <= off && refs >= 0) {} else if off >= barrier || off >= p.len() {} else {
        let b = p[off];
        if b & 0xc0 == 0xc0 { if refs <= 0 || off + 2 > p.len() {} else { let t = ptr_target(b, p[off + 1]); if t >= lowest {} else if p[t] == 0 {} else { lemma_hops_bounds(p, t, lowest, t, refs - 1, nlen); } } }
        else if b > 63 {} else if off + b + 1 > p.len() {} else if nlen + b + 1 > 255 {} else if has_bad(p, off + 1, off + 1 + b) {} else if b == 0 {} else { lemma_hops_bounds(p, off + b + 1, barrier, lowest, refs, nlen + b + 1); }
    }
}
pub proof fn lemma_has_bad_ext(p: Seq<u8>, p2: Seq<u8>, a: int, b: int)
    requires 0 <= a <= b <= p.len(), p.len() <= p2.len(), forall|i: int| 0 <= i < p.len() ==> p2[i] == p[i]
    ensures has_bad(p2, a, b) == has_bad(p, a, b)
{
    if has_bad(p, a, b) { let i = choose|i: int| a <= i < b && bad_char(#[trigger] p[i]); assert(bad_char(p2[i])); }
    if has_bad(p2, a, b) { let i = choose|i: int| a <= i < b && bad_char(#[trigger] p2[i]); assert(bad_char(p[i])); }
}
// a valid name stays the same name when the buffer grows, the first segment is given more room, the pointer budget is lowered
// to no less than the pointers actually followed, and the length already accumulated changes (as long as the total stays <= 255)
pub proof fn lemma_walk_transport(p: Seq<u8>, p2: Seq<u8>, off: int, ba: int, ba2: int, lo: int, refs: int, r2: int, nlen: int, n2: int, fend: Option<int>, w0: int, w1: int)
    requires walk(p, off, ba, lo, refs, nlen, fend).is_some(), ba <= p.len(), p.len() <= p2.len(), forall|i: int| 0 <= i < p.len() ==> p2[i] == p[i],
        ba <= ba2 <= p2.len(), hops(p, off, ba, lo, refs, nlen) <= r2, 0 <= nlen, 0 <= n2, n2 + exp(p, off, ba, lo, refs, nlen).len() <= 255,
    ensures walk(p2, off, ba2, lo, r2, n2, fend) == walk(p, off, ba, lo, refs, nlen, fend),
        exp(p2, off, ba2, lo, r2, n2) == exp(p, off, ba, lo, refs, nlen), hops(p2, off, ba2, lo, r2, n2) == hops(p, off, ba, lo, refs, nlen),
        avoid(p2, off, ba2, lo, r2, n2, w0, w1) == avoid(p, off, ba, lo, refs, nlen, w0, w1),
    decreases refs, p.len() - off
{
    let b = p[off];
    assert(p2[off] == b);
    lemma_hops_bounds(p, off, ba, lo, refs, nlen);
    if b & 0xc0 == 0xc0 {
        assert(p2[off + 1] == p[off + 1]);
        let t = ptr_target(b, p[off + 1]);
        assert(0 <= t) by { let hi = b; let l = p[off + 1]; assert(((((hi & 0x3f) as u16) << 8) | (l as u16)) >= 0u16) by(bit_vector); }
        let f2 = if fend.is_some() { fend } else { Some(off + 2) };
        assert(refs > 0 && off + 2 <= p.len() && t < lo && p[t] != 0);
        assert(walk(p, off, ba, lo, refs, nlen, fend) == walk(p, t, lo, t, refs - 1, nlen, f2));
        assert(hops(p, off, ba, lo, refs, nlen) == 1 + hops(p, t, lo, t, refs - 1, nlen));
        assert(exp(p, off, ba, lo, refs, nlen) == exp(p, t, lo, t, refs - 1, nlen));
        assert(p2[t] == p[t]);
        lemma_walk_transport(p, p2, t, lo, lo, t, refs - 1, r2 - 1, nlen, n2, f2, w0, w1);
    } else if b == 0 {
    } else {
        lemma_has_bad_ext(p, p2, off + 1, off + 1 + b);
        lemma_exp_len(p, off + b + 1, ba, lo, refs, nlen + b + 1, fend);
        lemma_walk_transport(p, p2, off + b + 1, ba, ba2, lo, refs, r2, nlen + b + 1, n2 + b + 1, fend, w0, w1);
    }
}

// p[a..x) is a run of whole clean labels: no root label, no pointer, at most 63 bytes each, no forbidden character
pub open spec fn clean_run(p: Seq<u8>, a: int, x: int) -> bool
    decreases x - a
{
    if a == x { true } else if a < 0 || a > x || x > p.len() { false }
    else { let b = p[a]; 0 < b <= 63 && a + b + 1 <= x && !has_bad(p, a + 1, a + 1 + b) && clean_run(p, a + b + 1, x) }
}
// whole labels followed by a valid rest are a valid name: labels ++ expansion of the rest
pub proof fn lemma_run_then(p: Seq<u8>, a: int, x: int, ba: int, lo: int, refs: int, nlen: int, fend: Option<int>, w0: int, w1: int)
    requires clean_run(p, a, x), 0 <= lo <= a, 0 <= nlen, walk(p, x, ba, lo, refs, nlen + (x - a), fend).is_some()
    ensures walk(p, a, ba, lo, refs, nlen, fend) == walk(p, x, ba, lo, refs, nlen + (x - a), fend),
        exp(p, a, ba, lo, refs, nlen) == p.subrange(a, x) + exp(p, x, ba, lo, refs, nlen + (x - a)),
        hops(p, a, ba, lo, refs, nlen) == hops(p, x, ba, lo, refs, nlen + (x - a)),
        (x <= w0 || a >= w1) ==> avoid(p, a, ba, lo, refs, nlen, w0, w1) == avoid(p, x, ba, lo, refs, nlen + (x - a), w0, w1),
    decreases x - a
{
    if a == x { assert(p.subrange(a, x) + exp(p, x, ba, lo, refs, nlen) =~= exp(p, x, ba, lo, refs, nlen)); }
    else {
        let b = p[a];
        assert(b & 0xc0 != 0xc0) by(bit_vector) requires b <= 63;
        lemma_exp_len(p, x, ba, lo, refs, nlen + (x - a), fend);
        lemma_run_then(p, a + b + 1, x, ba, lo, refs, nlen + b + 1, fend, w0, w1);
        assert(p.subrange(a, a + b + 1) + p.subrange(a + b + 1, x) =~= p.subrange(a, x));
        assert(p.subrange(a, a + b + 1) + (p.subrange(a + b + 1, x) + exp(p, x, ba, lo, refs, nlen + (x - a))) =~= p.subrange(a, x) + exp(p, x, ba, lo, refs, nlen + (x - a)));
    }
}
// F8 (pointer case): the output c1 ends with whole labels c1[a..x) followed by a pointer to q, where q already held a valid name in the
// shorter output c0 that follows at most 15 pointers: then c1 holds at a the name  labels ++ (name at q), valid under the parser's rule
pub proof fn lemma_emit_ptr(c0: Seq<u8>, c1: Seq<u8>, a: int, x: int, q: int, w0: int, w1: int)
    requires c0.len() <= c1.len(), forall|i: int| 0 <= i < c0.len() ==> c1[i] == c0[i],
        c0.len() <= a <= x, x + 2 == c1.len(), clean_run(c1, a, x), c1[x] & 0xc0 == 0xc0, ptr_target(c1[x], c1[x + 1]) == q,
        0 <= q < c0.len(), name_end(c0, q).is_some(), hops(c0, q, c0.len() as int, q, 16, 0) <= 15, c0[q] != 0,
        (x - a) + name_exp(c0, q).len() <= 255,
    ensures name_end(c1, a) == Some(x + 2), name_exp(c1, a) == c1.subrange(a, x) + name_exp(c0, q),
        hops(c1, a, c1.len() as int, a, 16, 0) == 1 + hops(c0, q, c0.len() as int, q, 16, 0),
        w1 <= c0.len() ==> avoid(c1, a, c1.len() as int, a, 16, 0, w0, w1) == avoid(c0, q, c0.len() as int, q, 16, 0, w0, w1),
{
    let n = x - a;
    // the old name, read in the new buffer with the room, budget and accumulated length it has after the jump
    lemma_walk_transport(c0, c1, q, c0.len() as int, a, q, 16, 15, 0, n, None, w0, w1);
    lemma_walk_fend(c1, q, a, q, 15, n, None, Some(x + 2));
    lemma_walk_bounds(c1, q, a, q, 15, n, Some(x + 2));
    assert(walk(c1, q, a, q, 15, n, Some(x + 2)) == Some(x + 2));
    // the pointer at x
    assert(c1[q] == c0[q]);
    assert(walk(c1, x, c1.len() as int, a, 16, n, None) == walk(c1, q, a, q, 15, n, Some(x + 2)));
    assert(exp(c1, x, c1.len() as int, a, 16, n) == exp(c1, q, a, q, 15, n));
    assert(hops(c1, x, c1.len() as int, a, 16, n) == 1 + hops(c1, q, a, q, 15, n));
    assert(w1 <= c0.len() ==> avoid(c1, x, c1.len() as int, a, 16, n, w0, w1) == avoid(c1, q, a, q, 15, n, w0, w1));
    // the labels before it
    lemma_run_then(c1, a, x, c1.len() as int, a, 16, 0, None, w0, w1);
}
// F8 (literal case): a clean pointer-free name copied to the end of the output is that name, and follows no pointer
pub proof fn lemma_pcs_hops(p: Seq<u8>, off: int, lowest: int, refs: int, nlen: int)
    requires pcs_walk(p, off, nlen).is_some(), 0 <= lowest <= off, refs >= 0
    ensures hops(p, off, p.len() as int, lowest, refs, nlen) == 0
    decreases p.len() - off
{ let b = p[off]; if b != 0 { lemma_pcs_hops(p, off + b + 1, lowest, refs, nlen + b + 1); } }
pub proof fn lemma_pcs_avoid(p: Seq<u8>, off: int, lowest: int, refs: int, nlen: int, w0: int, w1: int)
    requires pcs_walk(p, off, nlen).is_some(), 0 <= lowest <= off, refs >= 0, w1 <= off
    ensures avoid(p, off, p.len() as int, lowest, refs, nlen, w0, w1)
    decreases p.len() - off
{ let b = p[off]; if b != 0 { lemma_pcs_avoid(p, off + b + 1, lowest, refs, nlen + b + 1, w0, w1); } }
// a name that lies entirely below the window does not read it
pub proof fn lemma_avoid_low(p: Seq<u8>, off: int, ba: int, lo: int, refs: int, nlen: int, w0: int, w1: int)
    requires p.len() <= w0
    ensures avoid(p, off, ba, lo, refs, nlen, w0, w1)
    decreases refs, p.len() - off
{
    if !(0 <= lo <= off && refs >= 0) {} else if off >= ba || off >= p.len() {} else {
        let b = p[off];
        if b & 0xc0 == 0xc0 { if refs <= 0 || off + 2 > p.len() {} else { let t = ptr_target(b, p[off + 1]); if t >= lo {} else if p[t] == 0 {} else { lemma_avoid_low(p, t, lo, t, refs - 1, nlen, w0, w1); } } }
        else if b > 63 {} else if off + b + 1 > p.len() {} else if nlen + b + 1 > 255 {} else if has_bad(p, off + 1, off + 1 + b) {} else if b == 0 {} else { lemma_avoid_low(p, off + b + 1, ba, lo, refs, nlen + b + 1, w0, w1); }
    }
}
// bytes of the window are rewritten: a name that does not read the window is the same name
pub proof fn lemma_walk_window(p: Seq<u8>, p2: Seq<u8>, off: int, ba: int, lo: int, refs: int, nlen: int, fend: Option<int>, w0: int, w1: int)
    requires walk(p, off, ba, lo, refs, nlen, fend).is_some(), avoid(p, off, ba, lo, refs, nlen, w0, w1), p2.len() == p.len(), ba <= p.len(),
        forall|i: int| 0 <= i < p.len() && !(w0 <= i < w1) ==> p2[i] == p[i],
    ensures walk(p2, off, ba, lo, refs, nlen, fend) == walk(p, off, ba, lo, refs, nlen, fend), exp(p2, off, ba, lo, refs, nlen) == exp(p, off, ba, lo, refs, nlen),
        hops(p2, off, ba, lo, refs, nlen) == hops(p, off, ba, lo, refs, nlen), avoid(p2, off, ba, lo, refs, nlen, w0, w1),
    decreases refs, p.len() - off
{
    let b = p[off];
    if b & 0xc0 == 0xc0 {
        let t = ptr_target(b, p[off + 1]);
        assert(0 <= t) by { let hi = b; let l = p[off + 1]; assert(((((hi & 0x3f) as u16) << 8) | (l as u16)) >= 0u16) by(bit_vector); }
        let f2 = if fend.is_some() { fend } else { Some(off + 2) };
        assert(p2[off] == b && p2[off + 1] == p[off + 1]);
        assert(walk(p, off, ba, lo, refs, nlen, fend) == walk(p, t, lo, t, refs - 1, nlen, f2));
        assert(avoid(p, t, lo, t, refs - 1, nlen, w0, w1));
        lemma_walk_window(p, p2, t, lo, t, refs - 1, nlen, f2, w0, w1);
        // the byte at the target is read by the walk from t (it is not the root label, so it is a label length or a pointer byte outside the window)
        assert(p2[t] == p[t]) by { let bt = p[t]; assert(avoid(p, t, lo, t, refs - 1, nlen, w0, w1)); }
    } else if b == 0 {
        assert(p2[off] == b);
    } else {
        assert(p2[off] == b);
        assert(has_bad(p2, off + 1, off + 1 + b) == has_bad(p, off + 1, off + 1 + b)) by {
            if has_bad(p, off + 1, off + 1 + b) { let i = choose|i: int| off + 1 <= i < off + 1 + b && bad_char(#[trigger] p[i]); assert(bad_char(p2[i])); }
            if has_bad(p2, off + 1, off + 1 + b) { let i = choose|i: int| off + 1 <= i < off + 1 + b && bad_char(#[trigger] p2[i]); assert(bad_char(p[i])); }
        }
        lemma_walk_window(p, p2, off + b + 1, ba, lo, refs, nlen + b + 1, fend, w0, w1);
    }
}
pub proof fn lemma_dict_window(d: SuffixDict, c: Seq<u8>, c2: Seq<u8>, w0: int, w1: int)
    requires dict_ok(d, c), dict_avoid(d, c, w0, w1), c2.len() == c.len(), forall|i: int| 0 <= i < c.len() && !(w0 <= i < w1) ==> c2[i] == c[i]
    ensures dict_ok(d, c2), dict_avoid(d, c2, w0, w1)
{
    assert forall|s: int| 0 <= s < d.count implies enc_ok(c2, #[trigger] d.view()[s].1, d.view()[s].0) && avoid(c2, d.view()[s].1, c2.len() as int, d.view()[s].1, 16, 0, w0, w1) by {
        let q = d.view()[s].1;
        lemma_walk_window(c, c2, q, c.len() as int, q, 16, 0, None, w0, w1);
        // c[q] is read by the walk (first byte of the name)
        assert(c2[q] == c[q]) by { let bq = c[q]; if bq & 0xc0 == 0xc0 { } else { } }
    }
}
// case-insensitive equality is kept by a common prefix
pub proof fn lemma_eq_ci_prefix(l: Seq<u8>, x: Seq<u8>, y: Seq<u8>)
    requires eq_ci(x, y)
    ensures eq_ci(l + x, l + y)
{
    assert forall|k: int| 0 <= k < (l + x).len() implies lower(#[trigger] (l + x)[k]) == lower((l + y)[k]) by {
        if k >= l.len() { assert((l + x)[k] == x[k - l.len()]); assert((l + y)[k] == y[k - l.len()]); }
    }
}
pub proof fn lemma_eq_ci_trans(x: Seq<u8>, y: Seq<u8>, z: Seq<u8>)
    requires eq_ci(x, y), eq_ci(y, z)
    ensures eq_ci(x, z)
{ assert forall|k: int| 0 <= k < x.len() implies lower(#[trigger] x[k]) == lower(z[k]) by { assert(lower(x[k]) == lower(y[k])); } }

// ---- the dictionary against the output buffer
// the output holds at q a valid, non-root name that equals nm up to ASCII case
pub open spec fn enc_ok(out: Seq<u8>, q: int, nm: Seq<u8>) -> bool {
    0 <= q < out.len() && out[q] != 0 && name_end(out, q).is_some() && eq_ci(name_exp(out, q), nm)
}
// F8: every live entry of the dictionary designates, in the output, the suffix it stands for
pub open spec fn dict_ok(d: SuffixDict, out: Seq<u8>) -> bool {
    forall|s: int| 0 <= s < d.count ==> enc_ok(out, #[trigger] d.view()[s].1, d.view()[s].0)
}
// no live entry reads a byte of the window [w0, w1)
pub open spec fn dict_avoid(d: SuffixDict, out: Seq<u8>, w0: int, w1: int) -> bool {
    forall|s: int| 0 <= s < d.count ==> avoid(out, #[trigger] d.view()[s].1, out.len() as int, d.view()[s].1, 16, 0, w0, w1)
}
// the output only grows: what an entry designated it still designates
pub proof fn lemma_enc_ok_extw(c0: Seq<u8>, c1: Seq<u8>, q: int, nm: Seq<u8>, w0: int, w1: int)
    requires enc_ok(c0, q, nm), c0.len() <= c1.len(), forall|i: int| 0 <= i < c0.len() ==> c1[i] == c0[i]
    ensures enc_ok(c1, q, nm), name_exp(c1, q) == name_exp(c0, q), hops(c1, q, c1.len() as int, q, 16, 0) == hops(c0, q, c0.len() as int, q, 16, 0),
        avoid(c1, q, c1.len() as int, q, 16, 0, w0, w1) == avoid(c0, q, c0.len() as int, q, 16, 0, w0, w1)
{
    lemma_hops_bounds(c0, q, c0.len() as int, q, 16, 0);
    lemma_exp_len(c0, q, c0.len() as int, q, 16, 0, None);
    lemma_walk_transport(c0, c1, q, c0.len() as int, c1.len() as int, q, 16, 16, 0, 0, None, w0, w1);
}
pub proof fn lemma_enc_ok_ext(c0: Seq<u8>, c1: Seq<u8>, q: int, nm: Seq<u8>)
    requires enc_ok(c0, q, nm), c0.len() <= c1.len(), forall|i: int| 0 <= i < c0.len() ==> c1[i] == c0[i]
    ensures enc_ok(c1, q, nm), name_exp(c1, q) == name_exp(c0, q), hops(c1, q, c1.len() as int, q, 16, 0) == hops(c0, q, c0.len() as int, q, 16, 0)
{ lemma_enc_ok_extw(c0, c1, q, nm, 0, 0); }
pub proof fn lemma_dict_ok_ext(d: SuffixDict, c0: Seq<u8>, c1: Seq<u8>)
    requires dict_ok(d, c0), c0.len() <= c1.len(), forall|i: int| 0 <= i < c0.len() ==> c1[i] == c0[i]
    ensures dict_ok(d, c1)
{
    assert forall|s: int| 0 <= s < d.count implies enc_ok(c1, #[trigger] d.view()[s].1, d.view()[s].0) by { lemma_enc_ok_ext(c0, c1, d.view()[s].1, d.view()[s].0); }
}
// whole clean labels of a clean pointer-free name, seen from any label boundary up to any later one
pub proof fn lemma_pcs_clean_run(p: Seq<u8>, i: int, k: int, nl: int)
    requires pcs_walk(p, i, nl).is_some(), reach_plain(p, i, k)
    ensures clean_run(p, i, k), pcs_walk(p, k, nl + (k - i)) == pcs_walk(p, i, nl), i <= k
    decreases p.len() - i
{
    if i != k { let b = p[i]; lemma_pcs_clean_run(p, i + b + 1, k, nl + b + 1); lemma_pcs_bounds(p, i + b + 1, nl + b + 1); }
}
pub proof fn lemma_clean_run_shift(p1: Seq<u8>, a: int, x: int, p2: Seq<u8>, b: int)
    requires clean_run(p1, a, x), b >= 0, b + (x - a) <= p2.len(), forall|i: int| a <= i < x ==> p1[i] == p2[i - a + b]
    ensures clean_run(p2, b, b + (x - a))
    decreases x - a
{
    if a != x {
        let l = p1[a];
        assert(p2[b] == l);
        assert(!has_bad(p2, b + 1, b + 1 + l)) by {
            if has_bad(p2, b + 1, b + 1 + l) { let i = choose|i: int| b + 1 <= i < b + 1 + l && bad_char(#[trigger] p2[i]); assert(bad_char(p1[i - b + a])); }
        }
        lemma_clean_run_shift(p1, a + l + 1, x, p2, b + l + 1);
    }
}
// reach_plain composes: a boundary reached from off, seen from an earlier boundary
pub proof fn lemma_reach_from(p: Seq<u8>, off: int, i: int, k: int)
    requires reach_plain(p, off, i), reach_plain(p, off, k), i <= k
    ensures reach_plain(p, i, k)
    decreases p.len() - off
{
    if off != i { lemma_reach_from(p, off + p[off] + 1, i, k); }
}

// ---- one call of the name emitter: c0 = output at entry, p[off0..e) the clean pointer-free name being emitted, cur = input position reached
// a live entry is either faithful w.r.t. the output at entry, or was remembered during this call at label boundary i < cur of this name
pub open spec fn from_d0(v: (Seq<u8>, int), d0: SuffixDict) -> bool { exists|s0: int| 0 <= s0 < d0.count && #[trigger] d0.view()[s0] == v }
pub open spec fn slot_ok(v: (Seq<u8>, int), d0: SuffixDict, c0: Seq<u8>, p: Seq<u8>, off0: int, cur: int, e: int) -> bool {
    (enc_ok(c0, v.1, v.0) && from_d0(v, d0)) || (exists|i: int| off0 <= i < cur && #[trigger] reach_plain(p, off0, i) && v.1 == c0.len() + (i - off0) && v.0 == p.subrange(i, e) && e - i >= 3)
}
pub open spec fn slots_ok(d: SuffixDict, d0: SuffixDict, c0: Seq<u8>, p: Seq<u8>, off0: int, cur: int, e: int) -> bool {
    forall|s: int| 0 <= s < d.count ==> slot_ok(#[trigger] d.view()[s], d0, c0, p, off0, cur, e)
}
pub proof fn lemma_slots_mono(d: SuffixDict, d0: SuffixDict, c0: Seq<u8>, p: Seq<u8>, off0: int, cur: int, cur2: int, e: int)
    requires slots_ok(d, d0, c0, p, off0, cur, e), cur <= cur2
    ensures slots_ok(d, d0, c0, p, off0, cur2, e)
{
    assert forall|s: int| 0 <= s < d.count implies slot_ok(#[trigger] d.view()[s], d0, c0, p, off0, cur2, e) by {
        let v = d.view()[s];
        if !(enc_ok(c0, v.1, v.0) && from_d0(v, d0)) {
            let i = choose|i: int| off0 <= i < cur && #[trigger] reach_plain(p, off0, i) && v.1 == c0.len() + (i - off0) && v.0 == p.subrange(i, e) && e - i >= 3;
            assert(off0 <= i < cur2 && reach_plain(p, off0, i));
        }
    }
}
// the name that starts at label boundary i of the input, as it stands in the output once the emitter has written labels up to k and a pointer to q
pub proof fn lemma_boundary_ptr(c0: Seq<u8>, c1: Seq<u8>, p: Seq<u8>, off0: int, i: int, k: int, e: int, q: int, nmq: Seq<u8>, w0: int, w1: int)
    requires pcs_walk(p, off0, 0) == Some(e), reach_plain(p, off0, i), reach_plain(p, off0, k), off0 <= i <= k < e,
        c1.len() == c0.len() + (k - off0) + 2, c1.subrange(0, c0.len() + (k - off0)) == c0 + p.subrange(off0, k),
        c1[c1.len() - 2] & 0xc0 == 0xc0, ptr_target(c1[c1.len() - 2], c1[c1.len() - 1]) == q,
        enc_ok(c0, q, nmq), eq_ci(nmq, p.subrange(k, e)), hops(c0, q, c0.len() as int, q, 16, 0) <= 15,
    ensures ({ let a = c0.len() + (i - off0);
        name_end(c1, a) == Some(c1.len() as int) && eq_ci(name_exp(c1, a), p.subrange(i, e)) && c1[a] != 0 && 0 <= a < c1.len()
        && (w1 <= c0.len() && avoid(c0, q, c0.len() as int, q, 16, 0, w0, w1) ==> avoid(c1, a, c1.len() as int, a, 16, 0, w0, w1)) }),
{
    let a = c0.len() + (i - off0); let x = c0.len() + (k - off0);
    let pre = c0 + p.subrange(off0, k);
    assert forall|j: int| 0 <= j < c0.len() implies c1[j] == c0[j] by { assert(c1.subrange(0, x)[j] == pre[j]); }
    lemma_pcs_bounds(p, off0, 0);
    assert forall|j: int| i <= j < k implies p[j] == c1[j - i + a] by { assert(c1.subrange(0, x)[j - i + a] == pre[j - i + a]); assert(pre[c0.len() + (j - off0)] == p.subrange(off0, k)[j - off0]); }
    lemma_pcs_bounds(p, off0, 0);
    lemma_pcs_clean_run(p, off0, i, 0);
    lemma_reach_from(p, off0, i, k);
    lemma_pcs_clean_run(p, i, k, i - off0);
    lemma_clean_run_shift(p, i, k, c1, a);
    // lengths: the labels kept plus the name pointed to make up the suffix p[i..e), at most 255 bytes
    lemma_suffix_is_name(p, i, i - off0);
    assert(name_exp(c0, q).len() == e - k);
    lemma_emit_ptr(c0, c1, a, x, q, w0, w1);
    assert(c1.subrange(a, x) =~= p.subrange(i, k));
    lemma_eq_ci_trans(name_exp(c0, q), nmq, p.subrange(k, e));
    lemma_eq_ci_prefix(p.subrange(i, k), name_exp(c0, q), p.subrange(k, e));
    assert(p.subrange(i, k) + p.subrange(k, e) =~= p.subrange(i, e));
    if i < k { assert(c1[a] == p[i]); } else { let hb = c1[a]; assert(hb != 0) by(bit_vector) requires hb & 0xc0 == 0xc0; }
}
pub proof fn lemma_finish_ptr(d: SuffixDict, d0: SuffixDict, c0: Seq<u8>, c1: Seq<u8>, p: Seq<u8>, off0: int, k: int, e: int, q: int, nmq: Seq<u8>, w0: int, w1: int)
    requires pcs_walk(p, off0, 0) == Some(e), reach_plain(p, off0, k), off0 <= k < e,
        c1.len() == c0.len() + (k - off0) + 2, c1.subrange(0, c0.len() + (k - off0)) == c0 + p.subrange(off0, k),
        c1[c1.len() - 2] & 0xc0 == 0xc0, ptr_target(c1[c1.len() - 2], c1[c1.len() - 1]) == q,
        enc_ok(c0, q, nmq), eq_ci(nmq, p.subrange(k, e)), hops(c0, q, c0.len() as int, q, 16, 0) <= 15,
        slots_ok(d, d0, c0, p, off0, k, e),
    ensures dict_ok(d, c1), name_end(c1, c0.len() as int) == Some(c1.len() as int), eq_ci(name_exp(c1, c0.len() as int), p.subrange(off0, e)),
        // entries faithful at entry that avoided the window still do; so do the ones remembered during this call, provided the name pointed to does
        w1 <= c0.len() && avoid(c0, q, c0.len() as int, q, 16, 0, w0, w1) && dict_avoid(d0, c0, w0, w1) ==> dict_avoid(d, c1, w0, w1) && avoid(c1, c0.len() as int, c1.len() as int, c0.len() as int, 16, 0, w0, w1),
{
    let x = c0.len() + (k - off0); let pre = c0 + p.subrange(off0, k);
    assert forall|j: int| 0 <= j < c0.len() implies c1[j] == c0[j] by { assert(c1.subrange(0, x)[j] == pre[j]); }
    lemma_boundary_ptr(c0, c1, p, off0, off0, k, e, q, nmq, w0, w1);
    assert forall|s: int| 0 <= s < d.count implies enc_ok(c1, #[trigger] d.view()[s].1, d.view()[s].0) by {
        let v = d.view()[s];
        if enc_ok(c0, v.1, v.0) && from_d0(v, d0) { lemma_enc_ok_extw(c0, c1, v.1, v.0, w0, w1); }
        else {
            let i = choose|i: int| off0 <= i < k && #[trigger] reach_plain(p, off0, i) && v.1 == c0.len() + (i - off0) && v.0 == p.subrange(i, e) && e - i >= 3;
            lemma_boundary_ptr(c0, c1, p, off0, i, k, e, q, nmq, w0, w1);
        }
    }
    if w1 <= c0.len() && avoid(c0, q, c0.len() as int, q, 16, 0, w0, w1) && dict_avoid(d0, c0, w0, w1) {
        assert forall|s: int| 0 <= s < d.count implies avoid(c1, #[trigger] d.view()[s].1, c1.len() as int, d.view()[s].1, 16, 0, w0, w1) by {
            let v = d.view()[s];
            if enc_ok(c0, v.1, v.0) && from_d0(v, d0) { let s0 = choose|s0: int| 0 <= s0 < d0.count && #[trigger] d0.view()[s0] == v; assert(avoid(c0, d0.view()[s0].1, c0.len() as int, d0.view()[s0].1, 16, 0, w0, w1)); lemma_enc_ok_extw(c0, c1, v.1, v.0, w0, w1); }
            else {
                let i = choose|i: int| off0 <= i < k && #[trigger] reach_plain(p, off0, i) && v.1 == c0.len() + (i - off0) && v.0 == p.subrange(i, e) && e - i >= 3;
                lemma_boundary_ptr(c0, c1, p, off0, i, k, e, q, nmq, w0, w1);
            }
        }
    }
}
// the same once the whole name, root label included, has been copied
pub proof fn lemma_boundary_root(c0: Seq<u8>, c1: Seq<u8>, p: Seq<u8>, off0: int, i: int, e: int, w0: int, w1: int)
    requires pcs_walk(p, off0, 0) == Some(e), reach_plain(p, off0, i), off0 <= i < e, c1 == c0 + p.subrange(off0, e),
    ensures ({ let a = c0.len() + (i - off0);
        name_end(c1, a) == Some(c1.len() as int) && name_exp(c1, a) == p.subrange(i, e) && 0 <= a < c1.len() && (e - i >= 2 ==> c1[a] != 0)
        && (w1 <= c0.len() ==> avoid(c1, a, c1.len() as int, a, 16, 0, w0, w1)) }),
{
    let a = c0.len() + (i - off0);
    lemma_pcs_bounds(p, off0, 0);
    lemma_pcs_clean_run(p, off0, i, 0);
    lemma_pcs_nlen(p, i, i - off0, 0);
    lemma_pcs_bounds(p, i, 0);
    assert forall|j: int| i <= j < e implies p[j] == c1[j - i + a] by { }
    lemma_pcs_shift(p, i, c1, a, 0);
    lemma_name_exp_id(c1, a);
    if w1 <= c0.len() { lemma_pcs_avoid(c1, a, a, 16, 0, w0, w1); }
    assert(c1.subrange(a, a + (e - i)) =~= p.subrange(i, e));
    if e - i >= 2 { assert(c1[a] == p[i]); reveal_with_fuel(pcs_walk, 2); }
}
pub proof fn lemma_finish_root(d: SuffixDict, d0: SuffixDict, c0: Seq<u8>, c1: Seq<u8>, p: Seq<u8>, off0: int, e: int, w0: int, w1: int)
    requires pcs_walk(p, off0, 0) == Some(e), c1 == c0 + p.subrange(off0, e), slots_ok(d, d0, c0, p, off0, e, e),
    ensures dict_ok(d, c1), name_end(c1, c0.len() as int) == Some(c1.len() as int), eq_ci(name_exp(c1, c0.len() as int), p.subrange(off0, e)),
        w1 <= c0.len() && dict_avoid(d0, c0, w0, w1) ==> dict_avoid(d, c1, w0, w1) && avoid(c1, c0.len() as int, c1.len() as int, c0.len() as int, 16, 0, w0, w1),
{
    lemma_pcs_bounds(p, off0, 0);
    lemma_boundary_root(c0, c1, p, off0, off0, e, w0, w1);
    assert forall|s: int| 0 <= s < d.count implies enc_ok(c1, #[trigger] d.view()[s].1, d.view()[s].0) by {
        let v = d.view()[s];
        if enc_ok(c0, v.1, v.0) && from_d0(v, d0) { assert forall|j: int| 0 <= j < c0.len() implies c1[j] == c0[j] by { } lemma_enc_ok_extw(c0, c1, v.1, v.0, w0, w1); }
        else {
            let i = choose|i: int| off0 <= i < e && #[trigger] reach_plain(p, off0, i) && v.1 == c0.len() + (i - off0) && v.0 == p.subrange(i, e) && e - i >= 3;
            lemma_boundary_root(c0, c1, p, off0, i, e, w0, w1);
        }
    }
    if w1 <= c0.len() && dict_avoid(d0, c0, w0, w1) {
        assert forall|s: int| 0 <= s < d.count implies avoid(c1, #[trigger] d.view()[s].1, c1.len() as int, d.view()[s].1, 16, 0, w0, w1) by {
            let v = d.view()[s];
            if enc_ok(c0, v.1, v.0) && from_d0(v, d0) { let s0 = choose|s0: int| 0 <= s0 < d0.count && #[trigger] d0.view()[s0] == v; assert(avoid(c0, d0.view()[s0].1, c0.len() as int, d0.view()[s0].1, 16, 0, w0, w1)); assert forall|j: int| 0 <= j < c0.len() implies c1[j] == c0[j] by { } lemma_enc_ok_extw(c0, c1, v.1, v.0, w0, w1); }
            else {
                let i = choose|i: int| off0 <= i < e && #[trigger] reach_plain(p, off0, i) && v.1 == c0.len() + (i - off0) && v.0 == p.subrange(i, e) && e - i >= 3;
                lemma_boundary_root(c0, c1, p, off0, i, e, w0, w1);
            }
        }
    }
}
// the dictionary after `insert` at label boundary cur of the name being emitted
pub proof fn lemma_slots_insert(dpre: SuffixDict, dnew: SuffixDict, d0: SuffixDict, c0: Seq<u8>, p: Seq<u8>, off0: int, cur: int, cur2: int, e: int)
    requires slots_ok(dpre, d0, c0, p, off0, cur, e), reach_plain(p, off0, cur), off0 <= cur < cur2, dpre.index <= dpre.count,
        dnew == dpre || (e - cur >= 3
            && dnew.count == (if dpre.index == dpre.count { dpre.count + 1 } else { dpre.count as int })
            && dnew.view()[dpre.index as int] == (p.subrange(cur, e), c0.len() + (cur - off0))
            && (forall|i: int| 0 <= i < dpre.count && i != dpre.index ==> dnew.view()[i] == #[trigger] dpre.view()[i])),
    ensures slots_ok(dnew, d0, c0, p, off0, cur2, e)
{
    lemma_slots_mono(dpre, d0, c0, p, off0, cur, cur2, e);
    if dnew != dpre {
        assert forall|s: int| 0 <= s < dnew.count implies slot_ok(#[trigger] dnew.view()[s], d0, c0, p, off0, cur2, e) by {
            if s == dpre.index { assert(off0 <= cur < cur2 && reach_plain(p, off0, cur)); }
            else { assert(dnew.view()[s] == dpre.view()[s]); assert(slot_ok(dpre.view()[s], d0, c0, p, off0, cur2, e)); }
        }
    }
}
// a hit of `insert` on the suffix at boundary cur can only be an entry that was faithful at entry (the ones remembered during this call are longer)
pub proof fn lemma_hit_is_old(d: SuffixDict, d0: SuffixDict, c0: Seq<u8>, p: Seq<u8>, off0: int, cur: int, e: int, s: int)
    requires slots_ok(d, d0, c0, p, off0, cur, e), 0 <= s < d.count, eq_ci(d.view()[s].0, p.subrange(cur, e)), off0 <= cur <= e <= p.len()
    ensures enc_ok(c0, d.view()[s].1, d.view()[s].0), from_d0(d.view()[s], d0)
{
    let v = d.view()[s];
    if !(enc_ok(c0, v.1, v.0) && from_d0(v, d0)) {
        let i = choose|i: int| off0 <= i < cur && #[trigger] reach_plain(p, off0, i) && v.1 == c0.len() + (i - off0) && v.0 == p.subrange(i, e) && e - i >= 3;
        assert(v.0.len() == e - i);
    }
}
// entries faithful to the output of length <= w0 keep faithful when bytes are appended, and read nothing at or above w0
pub proof fn lemma_dict_header(d: SuffixDict, c0: Seq<u8>, c1: Seq<u8>, w0: int, w1: int)
    requires dict_ok(d, c0), c0.len() <= c1.len(), forall|i: int| 0 <= i < c0.len() ==> c1[i] == c0[i], c0.len() <= w0
    ensures dict_ok(d, c1), dict_avoid(d, c1, w0, w1)
{
    assert forall|s: int| 0 <= s < d.count implies enc_ok(c1, #[trigger] d.view()[s].1, d.view()[s].0) && avoid(c1, d.view()[s].1, c1.len() as int, d.view()[s].1, 16, 0, w0, w1) by {
        let q = d.view()[s].1;
        lemma_avoid_low(c0, q, c0.len() as int, q, 16, 0, w0, w1);
        lemma_enc_ok_extw(c0, c1, q, d.view()[s].0, w0, w1);
    }
}
pub proof fn lemma_dict_ext_w(d: SuffixDict, c0: Seq<u8>, c1: Seq<u8>, w0: int, w1: int)
    requires dict_ok(d, c0), dict_avoid(d, c0, w0, w1), c0.len() <= c1.len(), forall|i: int| 0 <= i < c0.len() ==> c1[i] == c0[i]
    ensures dict_ok(d, c1), dict_avoid(d, c1, w0, w1)
{
    assert forall|s: int| 0 <= s < d.count implies enc_ok(c1, #[trigger] d.view()[s].1, d.view()[s].0) && avoid(c1, d.view()[s].1, c1.len() as int, d.view()[s].1, 16, 0, w0, w1) by {
        lemma_enc_ok_extw(c0, c1, d.view()[s].1, d.view()[s].0, w0, w1);
    }
}

// a valid name that does not read the window keeps its end and expansion when the output grows / when the window is rewritten
pub proof fn lemma_name_keep(c: Seq<u8>, c2: Seq<u8>, q: int, w0: int, w1: int)
    requires name_end(c, q).is_some(), c.len() <= c2.len(), forall|i: int| 0 <= i < c.len() ==> c2[i] == c[i]
    ensures name_end(c2, q) == name_end(c, q), name_exp(c2, q) == name_exp(c, q),
        avoid(c2, q, c2.len() as int, q, 16, 0, w0, w1) == avoid(c, q, c.len() as int, q, 16, 0, w0, w1)
{
    lemma_hops_bounds(c, q, c.len() as int, q, 16, 0);
    lemma_exp_len(c, q, c.len() as int, q, 16, 0, None);
    lemma_walk_transport(c, c2, q, c.len() as int, c2.len() as int, q, 16, 16, 0, 0, None, w0, w1);
}
pub proof fn lemma_name_window(c: Seq<u8>, c2: Seq<u8>, q: int, w0: int, w1: int)
    requires name_end(c, q).is_some(), avoid(c, q, c.len() as int, q, 16, 0, w0, w1), c2.len() == c.len(), forall|i: int| 0 <= i < c.len() && !(w0 <= i < w1) ==> c2[i] == c[i]
    ensures name_end(c2, q) == name_end(c, q), name_exp(c2, q) == name_exp(c, q)
{ lemma_walk_window(c, c2, q, c.len() as int, q, 16, 0, None, w0, w1); }
