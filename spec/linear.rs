// ===== spec/linear.rs: C18 -- composition of the local step bounds into a linear bound =====
// Local facts, each machine-checked against the repo code in unit U1:
//   (a) one name walk spends at most 271 steps        (check_compressed_name: steps <= (16 - refs) + name_len <= 271)
//   (b) one pointer-free walk spends at most 256 steps (check_uncompressed_name)
//   (c) every record consumes at least 11 bytes       (parse_rr: final.offset >= old.offset + 11; loops: start + 11*i <= offset <= len)
//   (d) every option consumes at least 4 bytes        (parse_opt: 4 * edns_count <= offset - edns_start)
//   (e) parse_rr is loop-free and performs at most 3 name walks (counted syntactically by the extractor, reported in the evidence)
// Composition: with r records and o options visited, the walks cost at most 271 * (1 + 3 r), the visits r + o.
pub proof fn lemma_linear(len: int, r: int, o: int)
    requires 0 <= r, 0 <= o, 16 + 11 * r <= len, 4 * o <= len
    ensures 271 * (1 + 3 * r) + r + o <= 75 * len + 271
{ }
