// ===== spec/reader.rs: reader-level (structural) facts derived from the validator spec; the iterator invariant =====

// one record at off: owner name ends at ne, fixed header fits, rdata fits
pub open spec fn rec_ne(p: Seq<u8>, off: int) -> int { name_end(p, off).unwrap() }
pub open spec fn rec_ok(p: Seq<u8>, off: int) -> bool {
    name_end(p, off) matches Some(ne) && ne + 10 <= p.len() && ne + 10 + be16(p, ne + 8) <= p.len()
    && (be16(p, ne) == 1 ==> be16(p, ne + 8) == 4)          // A: the address accessors read 4 bytes
    && (be16(p, ne) == 28 ==> be16(p, ne + 8) == 16)        // AAAA: 16 bytes
    && (be16(p, ne) == 41 ==> ne == off + 1)                // OPT: root owner name
    && rd_ok(p, ne)                                         // the names inside understood rdata / the option list are well-formed
}
// type-specific data rules of C02 for the record whose owner name ends at ne
pub open spec fn rd_ok(p: Seq<u8>, ne: int) -> bool {
    let t = be16(p, ne); let l = be16(p, ne + 8) as int; let d = ne + 10;
    if t == 41 { opts(p, d, d + l).is_some() }
    else if t == 2 || t == 5 || t == 12 { name_end(p, d) == Some(d + l) }
    else if t == 15 { l > 2 && name_end(p, d + 2) == Some(d + l) }
    else if t == 6 { name_end(p, d) matches Some(n1) && (name_end(p, n1) matches Some(n2) && l > 21 && n2 + 20 == d + l) }
    else if t == 39 { plain_end(p, d) == Some(d + l) }
    else { true }
}
// a structurally valid record is exactly what the validator accepts there, up to the OPT placement rules
pub proof fn lemma_rec_rr_spec(p: Seq<u8>, off: int, sec: SecT, seen: bool)
    requires rec_ok(p, off)
    ensures rr_spec(p, off, sec, seen) == (if is_opt(p, off) { if sec is Additional && !seen { Some((rec_end(p, off), true)) } else { None } }
                                           else { Some((rec_end(p, off), false)) })
{ }
pub open spec fn rec_end(p: Seq<u8>, off: int) -> int { rec_ne(p, off) + 10 + be16(p, rec_ne(p, off) + 8) }
pub open spec fn sec_end(p: Seq<u8>, off: int, n: int) -> int decreases n { if n <= 0 { off } else { sec_end(p, rec_end(p, off), n - 1) } }
pub open spec fn recs_all(p: Seq<u8>, off: int, n: int) -> bool decreases n { if n <= 0 { true } else { rec_ok(p, off) && recs_all(p, rec_end(p, off), n - 1) } }
pub open spec fn is_opt(p: Seq<u8>, off: int) -> bool { be16(p, rec_ne(p, off)) == 41 }
pub open spec fn n_opt(p: Seq<u8>, off: int, n: int) -> int decreases n { if n <= 0 { 0 } else { (if is_opt(p, off) { 1int } else { 0int }) + n_opt(p, rec_end(p, off), n - 1) } }
// offset of record k (0-based) of a run of records starting at off
pub open spec fn rec_start(p: Seq<u8>, off: int, k: int) -> int decreases k { if k <= 0 { off } else { rec_start(p, rec_end(p, off), k - 1) } }

pub proof fn lemma_n_opt_nonneg(p: Seq<u8>, off: int, n: int) ensures n_opt(p, off, n) >= 0 decreases n { if n > 0 { lemma_n_opt_nonneg(p, rec_end(p, off), n - 1); } }

pub proof fn lemma_recs_step(p: Seq<u8>, off: int, n: int)
    requires recs_all(p, off, n), n > 0
    ensures rec_ok(p, off), recs_all(p, rec_end(p, off), n - 1), sec_end(p, off, n) == sec_end(p, rec_end(p, off), n - 1),
        n_opt(p, off, n) == (if is_opt(p, off) { 1int } else { 0int }) + n_opt(p, rec_end(p, off), n - 1), n_opt(p, rec_end(p, off), n - 1) >= 0
{ lemma_n_opt_nonneg(p, rec_end(p, off), n - 1); }

pub proof fn lemma_rec_bounds(p: Seq<u8>, off: int)
    requires rec_ok(p, off)
    ensures off < rec_ne(p, off), rec_ne(p, off) + 10 <= rec_end(p, off) <= p.len()
{ lemma_name_end_bounds(p, off); }

pub proof fn lemma_sec_end_bounds(p: Seq<u8>, off: int, n: int)
    requires recs_all(p, off, n), 0 <= off <= p.len()
    ensures off <= sec_end(p, off, n) <= p.len(), n > 0 ==> off + 11 <= sec_end(p, off, n)
    decreases n
{ if n > 0 { lemma_rec_bounds(p, off); lemma_sec_end_bounds(p, rec_end(p, off), n - 1); } }

// a record accepted by the validator is structurally a record
pub proof fn lemma_rr_spec_rec(p: Seq<u8>, off: int, sec: SecT, seen: bool)
    requires rr_spec(p, off, sec, seen).is_some()
    ensures rec_ok(p, off), rr_spec(p, off, sec, seen).unwrap().0 == rec_end(p, off),
        rr_spec(p, off, sec, seen).unwrap().1 == is_opt(p, off),
        is_opt(p, off) ==> (sec is Additional) && !seen,
{
    let ne = name_end(p, off).unwrap();
    let d = ne + 10; let l = be16(p, ne + 8) as int;
    lemma_name_end_bounds(p, d);
    lemma_name_end_bounds(p, d + 2);
    lemma_plain_bounds(p, d, 0);
}
pub proof fn lemma_rrs_recs(p: Seq<u8>, off: int, n: int, sec: SecT, opt: Option<int>)
    requires rrs(p, off, n, sec, opt).is_some()
    ensures recs_all(p, off, n), sec_end(p, off, n) == rrs(p, off, n, sec, opt).unwrap().0,
        n_opt(p, off, n) + (if opt.is_some() { 1int } else { 0int }) <= (if sec is Additional { 1int } else { 0int }) || (!(sec is Additional) && n_opt(p, off, n) == 0),
        n_opt(p, off, n) == 0 ==> rrs(p, off, n, sec, opt).unwrap().1 == opt,
        !(sec is Additional) ==> n_opt(p, off, n) == 0,
        (sec is Additional) ==> n_opt(p, off, n) + (if opt.is_some() { 1int } else { 0int }) <= 1,
    decreases n
{
    if n > 0 {
        lemma_rr_spec_rec(p, off, sec, opt.is_some());
        let r = rr_spec(p, off, sec, opt.is_some()).unwrap();
        lemma_rrs_recs(p, r.0, n - 1, sec, if r.1 { Some(off + 1) } else { opt });
        lemma_n_opt_nonneg(p, r.0, n - 1);
    }
}

pub open spec fn q_end(p: Seq<u8>) -> int { if be16(p, 4) == 1 { name_end(p, 12).unwrap() + 4 } else { 12 } }
pub open spec fn sec_count(p: Seq<u8>, s: Section) -> int {
    match s { Section::Question => be16(p, 4) as int, Section::Answer => be16(p, 6) as int, Section::NameServers => be16(p, 8) as int, _ => be16(p, 10) as int } }
pub open spec fn sec_start(p: Seq<u8>, s: Section) -> int {
    match s { Section::Question => 12, Section::Answer => q_end(p), Section::NameServers => sec_end(p, q_end(p), be16(p, 6) as int),
              _ => sec_end(p, sec_end(p, q_end(p), be16(p, 6) as int), be16(p, 8) as int) } }
pub open spec fn is_rsec(s: Section) -> bool { s is Answer || s is NameServers || s is Additional }

// offset right after the owner name of the OPT record among the n records starting at off (None: no OPT)
pub open spec fn opt_at(p: Seq<u8>, off: int, n: int) -> Option<int> decreases n {
    if n <= 0 { None } else if is_opt(p, off) { Some(rec_ne(p, off)) } else { opt_at(p, rec_end(p, off), n - 1) } }

// the reader-level invariant: the bytes have the shape every unchecked reader relies on, and the object's
// section offsets / EDNS summary are the ones decoded from these bytes
pub open spec fn wf_bytes(p: Seq<u8>) -> bool {
    p.len() >= 12 && be16(p, 4) <= 1
    && (be16(p, 4) == 1 ==> (name_end(p, 12) matches Some(ne) && ne + 4 <= p.len()))
    && recs_all(p, sec_start(p, Section::Answer), sec_count(p, Section::Answer))
    && recs_all(p, sec_start(p, Section::NameServers), sec_count(p, Section::NameServers))
    && recs_all(p, sec_start(p, Section::Additional), sec_count(p, Section::Additional))
    && sec_end(p, sec_start(p, Section::Additional), sec_count(p, Section::Additional)) == p.len()
    && n_opt(p, sec_start(p, Section::Answer), sec_count(p, Section::Answer)) == 0
    && n_opt(p, sec_start(p, Section::NameServers), sec_count(p, Section::NameServers)) == 0
    && n_opt(p, sec_start(p, Section::Additional), sec_count(p, Section::Additional)) <= 1
    && (opt_at(p, sec_start(p, Section::Additional), sec_count(p, Section::Additional)) matches Some(o) ==>
            opts(p, o + 10, o + 10 + be16(p, o + 8)).is_some())
}
pub open spec fn sec_off(p: Seq<u8>, s: Section) -> Option<int> { if sec_count(p, s) > 0 { Some(sec_start(p, s)) } else { None } }

impl ParsedPacket {
    pub open spec fn wf(&self) -> bool {
        self.packet matches Some(v) && wf_bytes(v@) && ({ let p = v@;
            optu(self.offset_question) == sec_off(p, Section::Question)
            && optu(self.offset_answers) == sec_off(p, Section::Answer)
            && optu(self.offset_nameservers) == sec_off(p, Section::NameServers)
            && optu(self.offset_additional) == sec_off(p, Section::Additional)
            && (match opt_at(p, sec_start(p, Section::Additional), sec_count(p, Section::Additional)) {
                None => self.offset_edns.is_none() && self.edns_count == 0 && self.ext_rcode.is_none() && self.edns_version.is_none() && self.ext_flags.is_none(),
                Some(o) => self.offset_edns == Some((o + 10) as usize) && opts(p, o + 10, o + 10 + be16(p, o + 8)) == Some(self.edns_count as int)
                    && self.ext_rcode == Some(p[o + 4]) && self.edns_version == Some(p[o + 5]) && self.ext_flags == Some(be16(p, o + 6)),
            })
            && (self.cached matches Some(c) ==> be16(p, 4) == 1 && c.0@ == name_exp(p, 12) && c.1 == be16(p, name_end(p, 12).unwrap()) && c.2 == be16(p, name_end(p, 12).unwrap() + 2))
        })
    }
}

// facts about the OPT record found by opt_at among n well-formed records
pub proof fn lemma_opt_at_facts(p: Seq<u8>, off: int, n: int)
    requires recs_all(p, off, n), 0 <= off <= p.len()
    ensures opt_at(p, off, n) matches Some(o) ==> (off + 1 <= o && o + 10 + be16(p, o + 8) <= p.len() && p[o - 1] == 0 && n_opt(p, off, n) >= 1),
        opt_at(p, off, n) is None ==> n_opt(p, off, n) == 0,
    decreases n
{
    if n > 0 {
        lemma_rec_bounds(p, off);
        lemma_n_opt_nonneg(p, rec_end(p, off), n - 1);
        if is_opt(p, off) {
            // root owner: name_end(p, off) == off + 1 means p[off] is the root label
            lemma_root_name(p, off);
        } else { lemma_opt_at_facts(p, rec_end(p, off), n - 1); }
    }
}
pub proof fn lemma_root_name(p: Seq<u8>, off: int)
    requires name_end(p, off) == Some(off + 1)
    ensures p[off] == 0
{
    let b = p[off];
    if b & 0xc0 == 0xc0 {
        let t = ptr_target(b, p[off + 1]);
        lemma_walk_bounds(p, t, off, t, 15, 0, Some(off + 2));
    } else if b != 0 {
        lemma_walk_bounds(p, off + b + 1, p.len() as int, off, 16, b + 1, None);
    }
}
// without an OPT record in the section the first record is not one
pub proof fn lemma_n_opt_first(p: Seq<u8>, off: int, n: int)
    requires n_opt(p, off, n) == 0, n > 0
    ensures !is_opt(p, off)
{ lemma_n_opt_nonneg(p, rec_end(p, off), n - 1); }

// ---- from the validator's acceptance to the reader-level invariant (C03: "for every packet the parser accepts")
pub proof fn lemma_rrs_opt(p: Seq<u8>, off: int, n: int, sec: SecT, opt: Option<int>)
    requires rrs(p, off, n, sec, opt).is_some()
    ensures rrs(p, off, n, sec, opt).unwrap().1 == (match opt_at(p, off, n) { Some(o) => Some(o), None => opt }),
        opt_at(p, off, n) matches Some(o) ==> opts(p, o + 10, o + 10 + be16(p, o + 8)).is_some(),
    decreases n
{
    if n > 0 {
        lemma_rr_spec_rec(p, off, sec, opt.is_some());
        let r = rr_spec(p, off, sec, opt.is_some()).unwrap();
        lemma_rrs_recs(p, r.0, n - 1, sec, if r.1 { Some(off + 1) } else { opt });
        lemma_rrs_opt(p, r.0, n - 1, sec, if r.1 { Some(off + 1) } else { opt });
        if r.1 {
            // a second OPT is impossible, so the rest of the run has none
            lemma_n_opt_nonneg(p, r.0, n - 1);
            lemma_opt_at_none(p, r.0, n - 1);
        }
    }
}
pub proof fn lemma_opt_at_none(p: Seq<u8>, off: int, n: int)
    requires n_opt(p, off, n) == 0
    ensures opt_at(p, off, n) is None
    decreases n
{ if n > 0 { lemma_n_opt_nonneg(p, rec_end(p, off), n - 1); lemma_opt_at_none(p, rec_end(p, off), n - 1); } }

pub proof fn lemma_parse_wf(pp: ParsedPacket, v: Vec<u8>)
    requires parse_spec(v@) matches Some(s) && pp.packet == Some(v) && pp_matches(pp, v@, s)
    ensures pp.wf()
{
    let p = v@;
    let qne = name_end(p, 12).unwrap();
    let o1 = qne + 4; let an = be16(p, 6) as int; let ns = be16(p, 8) as int; let ar = be16(p, 10) as int;
    lemma_name_end_bounds(p, 12);
    lemma_rrs_recs(p, o1, an, SecT::Answer, None);
    lemma_rrs_opt(p, o1, an, SecT::Answer, None);
    let r1 = rrs(p, o1, an, SecT::Answer, None).unwrap();
    lemma_rrs_recs(p, r1.0, ns, SecT::NameServers, r1.1);
    lemma_rrs_opt(p, r1.0, ns, SecT::NameServers, r1.1);
    let r2 = rrs(p, r1.0, ns, SecT::NameServers, r1.1).unwrap();
    lemma_rrs_recs(p, r2.0, ar, SecT::Additional, r2.1);
    lemma_rrs_opt(p, r2.0, ar, SecT::Additional, r2.1);
    lemma_opt_at_none(p, o1, an);
    lemma_opt_at_none(p, r1.0, ns);
    axiom_vec_len(&v);
}
