// ===== spec/racc.rs: the records the renamer writes are records the parser accepts (C07: "renaming returns an accepted packet") =====
// the expansion of a name whose encoding is one byte long is the root label
pub proof fn lemma_root_exp(p: Seq<u8>, off: int)
    requires name_end(p, off) == Some(off + 1)
    ensures name_exp(p, off) == seq![0u8]
{
    lemma_root_name(p, off);
    assert(name_exp(p, off) =~= seq![0u8]) by { assert(0u8 & 0xc0 != 0xc0) by(bit_vector); lemma_name_end_bounds(p, off); }
}
// the root name can only be written as its single byte
pub proof fn lemma_root_written(c0: Seq<u8>, c1: Seq<u8>, w: Seq<u8>)
    requires w == seq![0u8], exists|k: int| emitted(c0, c1, w, 0, k, w.len() as int)
    ensures c1 == c0 + seq![0u8]
{ assert(w.subrange(0, 1) =~= w); }
// the root name never matches a non-root source
pub proof fn lemma_root_nomatch(target: Seq<u8>, source: Seq<u8>, suffix: bool)
    requires source.len() > 1
    ensures replace_spec(seq![0u8], target, source, suffix) is NoMatch
{ }
// the question as the renamer writes it after out0: a valid name, then the four fixed bytes of the input's question
pub open spec fn q_written(out0: Seq<u8>, out: Seq<u8>, p: Seq<u8>) -> bool {
    let qne = name_end(p, 12).unwrap();
    out.len() >= out0.len() + 5 && name_end(out, out0.len() as int) == Some(out.len() - 4) && out.subrange(out.len() - 4, out.len() as int) == p.subrange(qne, qne + 4)
}
