// ===== spec/racc.rs: the records the renamer writes are records the parser accepts (C07: "renaming returns an accepted packet") =====
// the expansion of a name whose encoding is one byte long is the root label
pub proof fn lemma_root_exp(p: Seq<u8>, off: int)
    requires name_end(p, off) == Some(off + 1)
    ensures name_exp(p, off) == seq![0u8]
{
    lemma_root_name(p, off);
    assert(name_exp(p, off) =~= seq![0u8]) by { assert(0u8 & 0xc0 != 0xc0) by(bit_vector); lemma_name_end_bounds(p, off); }
}
// the root name can only be written as its single byte
pub proof fn lemma_root_written(c0: Seq<u8>, c1: Seq<u8>, w: Seq<u8>)
    requires w == seq![0u8], exists|k: int| emitted(c0, c1, w, 0, k, w.len() as int)
    ensures c1 == c0 + seq![0u8]
{ assert(w.subrange(0, 1) =~= w); }
// the root name never matches a non-root source
pub proof fn lemma_root_nomatch(target: Seq<u8>, source: Seq<u8>, suffix: bool)
    requires source.len() > 1
    ensures replace_spec(seq![0u8], target, source, suffix) is NoMatch
{ }
// the question as the renamer writes it after out0: a valid name, then the four fixed bytes of the input's question
pub open spec fn q_written(out0: Seq<u8>, out: Seq<u8>, p: Seq<u8>) -> bool {
    let qne = name_end(p, 12).unwrap();
    out.len() >= out0.len() + 5 && name_end(out, out0.len() as int) == Some(out.len() - 4) && out.subrange(out.len() - 4, out.len() as int) == p.subrange(qne, qne + 4)
}

// ---- C07: "... has that part replaced by the target, while every other name, the header, the counts, record order, types, classes, TTLs, opaque
// data and the OPT record are unchanged up to name case"
// data of one record: out has its fixed part at ho, the (possibly compressed) input has it at ne
pub open spec fn rd_ren(out: Seq<u8>, ho: int, p: Seq<u8>, ne: int, tg: Seq<u8>, src: Seq<u8>, sfx: bool) -> bool {
    let t = be16(p, ne); let l = be16(p, ne + 8) as int; let d = ne + 10; let d2 = ho + 10;
    out.subrange(ho, ho + 8) == p.subrange(ne, ne + 8) && (
        if t == 2 || t == 5 || t == 12 { eq_ci(name_exp(out, d2), renamed_name(name_exp(p, d), tg, src, sfx)) }
        else if t == 15 { out.subrange(d2, d2 + 2) == p.subrange(d, d + 2) && eq_ci(name_exp(out, d2 + 2), renamed_name(name_exp(p, d + 2), tg, src, sfx)) }
        else if t == 6 { let n1 = name_end(p, d).unwrap(); let n2 = name_end(p, n1).unwrap(); let m1 = name_end(out, d2).unwrap(); let m2 = name_end(out, m1).unwrap();
                         eq_ci(name_exp(out, d2), renamed_name(name_exp(p, d), tg, src, sfx)) && eq_ci(name_exp(out, m1), renamed_name(name_exp(p, n1), tg, src, sfx))
                         && out.subrange(m2, m2 + 20) == p.subrange(n2, n2 + 20) }
        else { be16(out, ho + 8) == l && out.subrange(d2, d2 + l) == p.subrange(d, d + l) })
}
pub open spec fn rec_ren(out: Seq<u8>, so: int, p: Seq<u8>, si: int, tg: Seq<u8>, src: Seq<u8>, sfx: bool) -> bool {
    eq_ci(name_exp(out, so), renamed_name(name_exp(p, si), tg, src, sfx)) && rd_ren(out, name_end(out, so).unwrap(), p, name_end(p, si).unwrap(), tg, src, sfx)
}
// a record of the output that the parser accepts keeps its decoded content when the output grows
pub proof fn lemma_rec_ren_ext(out: Seq<u8>, out2: Seq<u8>, so: int, p: Seq<u8>, si: int, tg: Seq<u8>, src: Seq<u8>, sfx: bool, sec: SecT, seen: bool)
    requires rr_spec(out, so, sec, seen).is_some(), out.len() <= out2.len(), forall|i: int| 0 <= i < out.len() ==> out2[i] == out[i], rec_ok(p, si)
    ensures rec_ren(out2, so, p, si, tg, src, sfx) == rec_ren(out, so, p, si, tg, src, sfx), rec_end(out2, so) == rec_end(out, so)
{
    lemma_rec_bounds(p, si);
    let ho = name_end(out, so).unwrap(); let t = be16(out, ho); let l2 = be16(out, ho + 8) as int; let d2 = ho + 10;
    let ne = name_end(p, si).unwrap(); let l = be16(p, ne + 8) as int;
    lemma_name_end_ext(out, out2, so);
    lemma_name_end_bounds(out, so);
    assert(out2.subrange(ho, ho + 8) =~= out.subrange(ho, ho + 8));
    assert(be16(out2, ho + 8) == be16(out, ho + 8));
    if out.subrange(ho, ho + 8) == p.subrange(ne, ne + 8) {
        assert(t == be16(p, ne)) by { assert(out.subrange(ho, ho + 8)[0] == p.subrange(ne, ne + 8)[0] && out.subrange(ho, ho + 8)[1] == p.subrange(ne, ne + 8)[1]); }
        if t == 2 || t == 5 || t == 12 { lemma_name_end_ext(out, out2, d2); }
        else if t == 15 { lemma_name_end_ext(out, out2, d2 + 2); assert(out2.subrange(d2, d2 + 2) =~= out.subrange(d2, d2 + 2)); }
        else if t == 6 { lemma_name_end_ext(out, out2, d2); let m1 = name_end(out, d2).unwrap(); lemma_name_end_ext(out, out2, m1); let m2 = name_end(out, m1).unwrap();
                         assert(out2.subrange(m2, m2 + 20) =~= out.subrange(m2, m2 + 20)); }
        else if l2 == l { assert(out2.subrange(d2, d2 + l) =~= out.subrange(d2, d2 + l)) by { lemma_rr_spec_rec(out, so, sec, seen); lemma_rec_bounds(out, so); } }
    }
}
// the n records of the output from so and the n records of the input from si correspond one to one and in order
pub open spec fn recs_ren(out: Seq<u8>, so: int, p: Seq<u8>, si: int, n: int, tg: Seq<u8>, src: Seq<u8>, sfx: bool) -> bool
    decreases n
{
    if n <= 0 { true } else { rec_ren(out, so, p, si, tg, src, sfx) && recs_ren(out, rec_end(out, so), p, rec_end(p, si), n - 1, tg, src, sfx) }
}
pub proof fn lemma_recs_ren_ext(out: Seq<u8>, out2: Seq<u8>, so: int, p: Seq<u8>, si: int, n: int, tg: Seq<u8>, src: Seq<u8>, sfx: bool, sec: SecT, opt: Option<int>)
    requires rrs(out, so, n, sec, opt).is_some(), out.len() <= out2.len(), forall|i: int| 0 <= i < out.len() ==> out2[i] == out[i], recs_all(p, si, n)
    ensures recs_ren(out2, so, p, si, n, tg, src, sfx) == recs_ren(out, so, p, si, n, tg, src, sfx)
    decreases n
{
    if n > 0 {
        lemma_rec_ren_ext(out, out2, so, p, si, tg, src, sfx, sec, opt.is_some());
        let r = rr_spec(out, so, sec, opt.is_some()).unwrap();
        lemma_rr_spec_rec(out, so, sec, opt.is_some());
        lemma_recs_ren_ext(out, out2, r.0, p, rec_end(p, si), n - 1, tg, src, sfx, sec, if r.1 { Some(so + 1) } else { opt });
    }
}
pub proof fn lemma_recs_ren_append(out: Seq<u8>, so: int, p: Seq<u8>, si: int, n: int, tg: Seq<u8>, src: Seq<u8>, sfx: bool, sec: SecT, opt: Option<int>)
    requires n >= 0, rrs(out, so, n, sec, opt) matches Some(r) && rec_ren(out, r.0, p, rec_start(p, si, n), tg, src, sfx), recs_ren(out, so, p, si, n, tg, src, sfx)
    ensures recs_ren(out, so, p, si, n + 1, tg, src, sfx)
    decreases n
{
    if n > 0 {
        let q = rr_spec(out, so, sec, opt.is_some()).unwrap();
        lemma_rr_spec_rec(out, so, sec, opt.is_some());
        lemma_recs_ren_append(out, q.0, p, rec_end(p, si), n - 1, tg, src, sfx, sec, if q.1 { Some(so + 1) } else { opt });
    } else { reveal_with_fuel(recs_ren, 2); reveal_with_fuel(rrs, 2); reveal_with_fuel(rec_start, 2); }
}
// the question: name rewritten (or kept), type and class byte for byte
pub open spec fn q_ren(out: Seq<u8>, qe2: int, p: Seq<u8>, tg: Seq<u8>, src: Seq<u8>, sfx: bool) -> bool {
    let qne = name_end(p, 12).unwrap();
    eq_ci(name_exp(out, 12), renamed_name(name_exp(p, 12), tg, src, sfx)) && out.subrange(qe2, qe2 + 4) == p.subrange(qne, qne + 4)
}
pub proof fn lemma_q_ren_ext(out: Seq<u8>, out2: Seq<u8>, qe2: int, p: Seq<u8>, tg: Seq<u8>, src: Seq<u8>, sfx: bool)
    requires q_ok(out, qe2), q_ren(out, qe2, p, tg, src, sfx), out.len() <= out2.len(), forall|i: int| 0 <= i < out.len() ==> out2[i] == out[i]
    ensures q_ren(out2, qe2, p, tg, src, sfx)
{ lemma_name_end_ext(out, out2, 12); lemma_name_end_bounds(out, 12); assert(out2.subrange(qe2, qe2 + 4) =~= out.subrange(qe2, qe2 + 4)); }
// C07: the renamed message: header byte for byte (hence the counts), the question and then every record, section by section and in order, with
// every name equal -- up to ASCII case -- to the rewritten form of the input's (expanded) name, or to that name itself where the source does not
// match, and everything else (types, classes, TTLs, MX preference, SOA numbers, opaque data, the OPT record and its options) byte for byte
pub open spec fn msg_ren(v: Seq<u8>, p: Seq<u8>, tg: Seq<u8>, src: Seq<u8>, sfx: bool) -> bool {
    v.len() >= 12 && v.subrange(0, 12) == p.subrange(0, 12) && (name_end(v, 12) matches Some(qe2) && q_ren(v, qe2, p, tg, src, sfx))
    && recs_ren(v, sec_start(v, Section::Answer), p, sec_start(p, Section::Answer), be16(p, 6) as int, tg, src, sfx)
    && recs_ren(v, sec_start(v, Section::NameServers), p, sec_start(p, Section::NameServers), be16(p, 8) as int, tg, src, sfx)
    && recs_ren(v, sec_start(v, Section::Additional), p, sec_start(p, Section::Additional), be16(p, 10) as int, tg, src, sfx)
}
pub proof fn lemma_msg_ren(out: Seq<u8>, p: Seq<u8>, qe2: int, o2: int, o3: int, opt4: Option<int>, tg: Seq<u8>, src: Seq<u8>, sfx: bool)
    requires wf_packet(p), out.len() >= 12, out.subrange(0, 12) == p.subrange(0, 12), q_ok(out, qe2), q_ren(out, qe2, p, tg, src, sfx),
        rrs(out, qe2 + 4, be16(p, 6) as int, SecT::Answer, None) == Some((o2, None::<int>)),
        rrs(out, o2, be16(p, 8) as int, SecT::NameServers, None) == Some((o3, None::<int>)),
        rrs(out, o3, be16(p, 10) as int, SecT::Additional, None) == Some((out.len() as int, opt4)),
        recs_ren(out, qe2 + 4, p, sec_start(p, Section::Answer), be16(p, 6) as int, tg, src, sfx),
        recs_ren(out, o2, p, sec_start(p, Section::NameServers), be16(p, 8) as int, tg, src, sfx),
        recs_ren(out, o3, p, sec_start(p, Section::Additional), be16(p, 10) as int, tg, src, sfx),
    ensures msg_ren(out, p, tg, src, sfx)
{
    assert(p.len() >= 12);
    assert forall|i: int| 0 <= i < 12 implies out[i] == p[i] by { assert(out[i] == out.subrange(0, 12)[i]); assert(p[i] == p.subrange(0, 12)[i]); }
    assert(be16(out, 4) == be16(p, 4) && be16(out, 6) == be16(p, 6) && be16(out, 8) == be16(p, 8) && be16(out, 10) == be16(p, 10));
    lemma_rrs_recs(out, qe2 + 4, be16(p, 6) as int, SecT::Answer, None);
    lemma_rrs_recs(out, o2, be16(p, 8) as int, SecT::NameServers, None);
}
// C07 "renaming a name to itself leaves the message unchanged", name level: with target == source the rewritten name is the name itself up to ASCII
// case (so every name clause of msg_ren reads "equal to the input's expanded name up to case"), and the call cannot fail with TooLong
pub proof fn lemma_rename_identity(nm: Seq<u8>, src: Seq<u8>, sfx: bool)
    requires nm.len() <= 255
    ensures eq_ci(renamed_name(nm, src, src, sfx), nm), !(replace_spec(nm, src, src, sfx) is TooLong)
{
    if let Rep::New(w) = replace_spec(nm, src, src, sfx) {
        let off = nm.len() - src.len();
        assert forall|k: int| 0 <= k < w.len() implies lower(#[trigger] w[k]) == lower(nm[k]) by {
            if k >= off { assert(w[k] == src[k - off]); assert(lower(nm.subrange(off, nm.len() as int)[k - off]) == lower(src[k - off])); }
        }
    }
}
// ---- the EDNS summary survives renaming: corresponding runs have their OPT record at the same index, with the same fixed fields and option list
pub proof fn lemma_ren_opt_at(v: Seq<u8>, sv: int, p: Seq<u8>, sp: int, n: int, tg: Seq<u8>, src: Seq<u8>, sfx: bool)
    requires recs_ren(v, sv, p, sp, n, tg, src, sfx), recs_all(v, sv, n), recs_all(p, sp, n), 0 <= sv <= v.len(), 0 <= sp <= p.len(),
    ensures opt_at(v, sv, n) is None <==> opt_at(p, sp, n) is None,
        opt_at(v, sv, n) matches Some(ov) ==> ({ let op = opt_at(p, sp, n).unwrap();
            v[ov + 4] == p[op + 4] && v[ov + 5] == p[op + 5] && be16(v, ov + 6) == be16(p, op + 6)
            && opts(v, ov + 10, ov + 10 + be16(v, ov + 8)) == opts(p, op + 10, op + 10 + be16(p, op + 8)) }),
    decreases n
{
    if n > 0 {
        lemma_rec_bounds(v, sv); lemma_rec_bounds(p, sp);
        let ho = rec_ne(v, sv); let ne = rec_ne(p, sp);
        assert(v.subrange(ho, ho + 8) == p.subrange(ne, ne + 8));
        let a = v.subrange(ho, ho + 8); let b = p.subrange(ne, ne + 8);
        assert(a[0] == b[0] && a[1] == b[1] && a[4] == b[4] && a[5] == b[5] && a[6] == b[6] && a[7] == b[7]);
        assert(v[ho] == p[ne] && v[ho + 1] == p[ne + 1] && v[ho + 4] == p[ne + 4] && v[ho + 5] == p[ne + 5] && v[ho + 6] == p[ne + 6] && v[ho + 7] == p[ne + 7]);
        assert(be16(v, ho) == be16(p, ne));
        if is_opt(p, sp) {
            let l = be16(p, ne + 8) as int; let d = ne + 10; let d2 = ho + 10;
            assert(be16(v, ho + 6) == be16(p, ne + 6));
            assert(v.subrange(d2, d2 + l) == p.subrange(d, d + l));
            assert forall|i: int| d <= i < d + l implies p[i] == v[i - d + d2] by { assert(v.subrange(d2, d2 + l)[i - d] == p.subrange(d, d + l)[i - d]); }
            lemma_opts_shift(p, d, d + l, v, d2);
        } else {
            lemma_sec_end_bounds(v, rec_end(v, sv), n - 1); lemma_sec_end_bounds(p, rec_end(p, sp), n - 1);
            lemma_ren_opt_at(v, rec_end(v, sv), p, rec_end(p, sp), n - 1, tg, src, sfx);
        }
    }
}
pub proof fn lemma_ren_edns(v: Seq<u8>, p: Seq<u8>, tg: Seq<u8>, src: Seq<u8>, sfx: bool)
    requires wf_packet(v), wf_packet(p), msg_ren(v, p, tg, src, sfx)
    ensures ({ let n = be16(p, 10) as int; let sv = sec_start(v, Section::Additional); let sp = sec_start(p, Section::Additional);
        sec_count(v, Section::Additional) == n
        && (opt_at(v, sv, n) is None <==> opt_at(p, sp, n) is None)
        && (opt_at(v, sv, n) matches Some(ov) ==> ({ let op = opt_at(p, sp, n).unwrap();
            v[ov + 4] == p[op + 4] && v[ov + 5] == p[op + 5] && be16(v, ov + 6) == be16(p, op + 6)
            && opts(v, ov + 10, ov + 10 + be16(v, ov + 8)) == opts(p, op + 10, op + 10 + be16(p, op + 8)) })) }),
{
    lemma_wf_packet_bytes(v); lemma_wf_bytes_facts(v);
    lemma_wf_packet_bytes(p); lemma_wf_bytes_facts(p);
    assert forall|i: int| 0 <= i < 12 implies v[i] == p[i] by { assert(v.subrange(0, 12)[i] == p.subrange(0, 12)[i]); }
    assert(be16(v, 10) == be16(p, 10));
    lemma_ren_opt_at(v, sec_start(v, Section::Additional), p, sec_start(p, Section::Additional), be16(p, 10) as int, tg, src, sfx);
}
