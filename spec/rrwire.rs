// ===== spec/rrwire.rs: RFC 1035 wire form of a synthesised record (C13) =====
// owner name (text) ++ type ++ class ++ ttl ++ rdlength ++ rdata
pub open spec fn rr_wire(name: Seq<u8>, t: u16, c: u16, ttl: u32, rdata: Seq<u8>) -> Option<Seq<u8>> {
    match name_to_wire(name, None) {
        Some(w) => if w.len() <= 253 && rdata.len() <= 0xffff { Some(w + b16(t) + b16(c) + b32(ttl) + b16(rdata.len() as u16) + rdata) } else { None },
        None => None,
    }
}
pub open spec fn q_wire(name: Seq<u8>, t: u16, c: u16) -> Option<Seq<u8>> {
    match name_to_wire(name, None) {
        Some(w) => if w.len() <= 253 { Some(w + b16(t) + b16(c)) } else { None },
        None => None,
    }
}
pub open spec fn wire253(name: Seq<u8>) -> Option<Seq<u8>> {
    match name_to_wire(name, None) { Some(w) => if w.len() <= 253 { Some(w) } else { None }, None => None }
}
// TXT: chunks of at most 255 bytes, each prefixed by its length
pub open spec fn txt_chunks(t: Seq<u8>, i: int) -> Seq<u8>
    decreases t.len() - i
{
    if i < 0 || i >= t.len() { Seq::<u8>::empty() }
    else { let e = if t.len() - i < 255 { t.len() as int } else { i + 255 };
           seq![(e - i) as u8] + t.subrange(i, e) + txt_chunks(t, e) }
}
impl RR {
    pub open spec fn wf(&self) -> bool { self.rdata_offset as int <= self.packet.len() }
}
