// ===== spec/locality.rs: locality lemmas for pointer-free names and records (DESIGN Appendix D / F.3 / F.4) =====
// ============ locality for pointer-free names and records ============
pub open spec fn pcs_walk(p: Seq<u8>, off: int, nlen: int) -> Option<int>
    decreases p.len() - off
{
    if off < 0 || off >= p.len() { None }
    else {
        let b = p[off];
        if b & 0xc0 == 0xc0 { None }
        else if b > 63 { None }
        else if off + b + 1 > p.len() { None }
        else if nlen + b + 1 > 255 { None }
        else if has_bad(p, off + 1, off + 1 + b) { None }
        else if b == 0 { Some(off + 1) }
        else { pcs_walk(p, off + b + 1, nlen + b + 1) }
    }
}
pub open spec fn pcs_end(p: Seq<u8>, off: int) -> Option<int> { pcs_walk(p, off, 0) }

// a pointer-free, clean name is accepted by the compressed-name rule with the same end
pub proof fn lemma_pcs_is_walk(p: Seq<u8>, off: int, lowest: int, refs: int, nlen: int, fend: Option<int>)
    requires pcs_walk(p, off, nlen).is_some(), 0 <= lowest <= off, refs >= 0
    ensures walk(p, off, p.len() as int, lowest, refs, nlen, fend) == Some(if fend.is_some() { fend.unwrap() } else { pcs_walk(p, off, nlen).unwrap() })
    decreases p.len() - off
{
    let b = p[off];
    if b != 0 { lemma_pcs_is_walk(p, off + b + 1, lowest, refs, nlen + b + 1, fend); }
}
pub proof fn lemma_pcs_name_end(p: Seq<u8>, off: int)
    requires pcs_end(p, off).is_some()
    ensures name_end(p, off) == pcs_end(p, off)
{
    lemma_pcs_is_walk(p, off, off, 16, 0, None);
}
pub proof fn lemma_pcs_bounds(p: Seq<u8>, off: int, nlen: int)
    ensures pcs_walk(p, off, nlen) matches Some(e) ==> off < e <= p.len()
    decreases p.len() - off
{
    if off < 0 || off >= p.len() {} else {
        let b = p[off];
        if b & 0xc0 == 0xc0 {} else if b > 63 {} else if off + b + 1 > p.len() {} else if nlen + b + 1 > 255 {} else if has_bad(p, off + 1, off + 1 + b) {} else if b == 0 {} else { lemma_pcs_bounds(p, off + b + 1, nlen + b + 1); }
    }
}
// shift invariance: the same bytes at another position (in another buffer) are the same name
pub proof fn lemma_pcs_shift(p1: Seq<u8>, a: int, p2: Seq<u8>, b: int, nlen: int)
    requires pcs_walk(p1, a, nlen) matches Some(e) && b >= 0 && b + (e - a) <= p2.len()
                && (forall|i: int| a <= i < e ==> p1[i] == p2[i - a + b]),
    ensures pcs_walk(p2, b, nlen) == Some(pcs_walk(p1, a, nlen).unwrap() - a + b)
    decreases p1.len() - a
{
    lemma_pcs_bounds(p1, a, nlen);
    let e = pcs_walk(p1, a, nlen).unwrap();
    let l = p1[a];
    assert(p2[b] == l);
    if l != 0 {
        lemma_pcs_bounds(p1, a + l + 1, nlen + l + 1);
        assert(!has_bad(p2, b + 1, b + 1 + l)) by {
            if has_bad(p2, b + 1, b + 1 + l) {
                let i = choose|i: int| b + 1 <= i < b + 1 + l && bad_char(#[trigger] p2[i]);
                assert(bad_char(p1[i - b + a]));
            }
        }
        lemma_pcs_shift(p1, a + l + 1, p2, b + l + 1, nlen + l + 1);
    }
}

pub proof fn lemma_plain_shift(p1: Seq<u8>, a: int, p2: Seq<u8>, b: int, nlen: int)
    requires plain_walk(p1, a, nlen) matches Some(e) && b >= 0 && b + (e - a) <= p2.len()
                && (forall|i: int| a <= i < e ==> p1[i] == p2[i - a + b]),
    ensures plain_walk(p2, b, nlen) == Some(plain_walk(p1, a, nlen).unwrap() - a + b)
    decreases p1.len() - a
{
    lemma_plain_bounds(p1, a, nlen);
    let l = p1[a];
    assert(p2[b] == l);
    if l != 0 { lemma_plain_bounds(p1, a + l + 1, nlen + l + 1); lemma_plain_shift(p1, a + l + 1, p2, b + l + 1, nlen + l + 1); }
}
pub proof fn lemma_opts_shift(p1: Seq<u8>, a: int, e: int, p2: Seq<u8>, b: int)
    requires opts(p1, a, e).is_some(), 0 <= a <= e <= p1.len(), b >= 0, b + (e - a) <= p2.len(),
             forall|i: int| a <= i < e ==> p1[i] == p2[i - a + b],
    ensures opts(p2, b, b + (e - a)) == opts(p1, a, e)
    decreases e - a
{
    if a < e {
        assert(p1[a + 2] == p2[b + 2]); assert(p1[a + 3] == p2[b + 3]);
        let l = be16(p1, a + 2) as int;
        assert(be16(p2, b + 2) == be16(p1, a + 2));
        lemma_opts_shift(p1, a + 4 + l, e, p2, b + 4 + l);
    }
}

// a record whose names are all pointer-free and clean
pub open spec fn pf_rr(p: Seq<u8>, off: int) -> bool {
    pcs_end(p, off) matches Some(ne) && ne + 10 <= p.len() && ({
        let t = be16(p, ne); let l = be16(p, ne + 8) as int; let d = ne + 10;
        if t == 41 { ne == off + 1 && d + l <= p.len() && opts(p, d, d + l).is_some() }
        else if t == 2 || t == 5 || t == 12 { pcs_end(p, d) == Some(d + l) }
        else if t == 15 { l > 2 && pcs_end(p, d + 2) == Some(d + l) }
        else if t == 6 { pcs_end(p, d) matches Some(n1) && (pcs_end(p, n1) matches Some(n2) && l > 21 && n2 + 20 == d + l && d + l <= p.len()) }
        else if t == 39 { plain_end(p, d) == Some(d + l) }
        else if t == 1 { l == 4 && d + l <= p.len() }
        else if t == 28 { l == 16 && d + l <= p.len() }
        else { d + l <= p.len() }
    })
}
pub open spec fn pf_end(p: Seq<u8>, off: int) -> int { let ne = pcs_end(p, off).unwrap(); ne + 10 + be16(p, ne + 8) }

// a pointer-free record is exactly what the validator accepts there (up to the OPT placement rules)
pub proof fn lemma_pf_rr_spec(p: Seq<u8>, off: int, sec: SecT, seen: bool)
    requires pf_rr(p, off)
    ensures rr_spec(p, off, sec, seen) == (
        if be16(p, pcs_end(p, off).unwrap()) == 41 { if sec is Additional && !seen { Some((pf_end(p, off), true)) } else { None } }
        else { Some((pf_end(p, off), false)) }),
        off < pf_end(p, off) <= p.len(),
{
    let ne = pcs_end(p, off).unwrap(); let d = ne + 10; let l = be16(p, ne + 8) as int; let t = be16(p, ne);
    lemma_pcs_name_end(p, off);
    lemma_pcs_bounds(p, off, 0);
    if t == 2 || t == 5 || t == 12 { lemma_pcs_name_end(p, d); lemma_pcs_bounds(p, d, 0); }
    else if t == 15 { lemma_pcs_name_end(p, d + 2); lemma_pcs_bounds(p, d + 2, 0); }
    else if t == 6 { lemma_pcs_name_end(p, d); lemma_pcs_name_end(p, pcs_end(p, d).unwrap()); }
    else if t == 39 { lemma_plain_bounds(p, d, 0); }
}

// locality: the same record bytes anywhere else are the same record
pub proof fn lemma_pf_rr_shift(p1: Seq<u8>, a: int, p2: Seq<u8>, b: int)
    requires pf_rr(p1, a), b >= 0, b + (pf_end(p1, a) - a) <= p2.len(),
             forall|i: int| a <= i < pf_end(p1, a) ==> p1[i] == p2[i - a + b],
    ensures pf_rr(p2, b), pf_end(p2, b) == pf_end(p1, a) - a + b,
            be16(p2, pcs_end(p2, b).unwrap()) == be16(p1, pcs_end(p1, a).unwrap()),
{
    let ne = pcs_end(p1, a).unwrap(); let d = ne + 10; let l = be16(p1, ne + 8) as int; let t = be16(p1, ne);
    let sh = b - a;
    lemma_pf_rr_spec(p1, a, SecT::Additional, false);
    lemma_pcs_bounds(p1, a, 0);
    lemma_pcs_shift(p1, a, p2, b, 0);
    assert(forall|k: int| ne <= k < ne + 10 ==> p1[k] == p2[k + sh]);
    assert(be16(p2, ne + sh) == t) by { assert(p1[ne] == p2[ne + sh]); assert(p1[ne + 1] == p2[ne + 1 + sh]); }
    assert(be16(p2, ne + 8 + sh) == be16(p1, ne + 8)) by { assert(p1[ne + 8] == p2[ne + 8 + sh]); assert(p1[ne + 9] == p2[ne + 9 + sh]); }
    if t == 41 { lemma_opts_shift(p1, d, d + l, p2, d + sh); }
    else if t == 2 || t == 5 || t == 12 { lemma_pcs_shift(p1, d, p2, d + sh, 0); }
    else if t == 15 { lemma_pcs_shift(p1, d + 2, p2, d + 2 + sh, 0); }
    else if t == 6 { let n1 = pcs_end(p1, d).unwrap(); lemma_pcs_bounds(p1, d, 0); lemma_pcs_bounds(p1, n1, 0); lemma_pcs_shift(p1, d, p2, d + sh, 0); lemma_pcs_shift(p1, n1, p2, n1 + sh, 0); }
    else if t == 39 { lemma_plain_shift(p1, d, p2, d + sh, 0); }
}

// ============ section level: n pointer-free records ============
pub open spec fn pf_rrs(p: Seq<u8>, off: int, n: int) -> bool
    decreases n
{ if n <= 0 { true } else { pf_rr(p, off) && pf_rrs(p, pf_end(p, off), n - 1) } }
pub open spec fn pf_rrs_end(p: Seq<u8>, off: int, n: int) -> int
    decreases n
{ if n <= 0 { off } else { pf_rrs_end(p, pf_end(p, off), n - 1) } }
pub open spec fn pf_is_opt(p: Seq<u8>, off: int) -> bool { be16(p, pcs_end(p, off).unwrap()) == 41 }
pub open spec fn pf_n_opt(p: Seq<u8>, off: int, n: int) -> int
    decreases n
{ if n <= 0 { 0 } else { (if pf_is_opt(p, off) { 1int } else { 0int }) + pf_n_opt(p, pf_end(p, off), n - 1) } }

pub proof fn lemma_pf_rrs_bounds(p: Seq<u8>, off: int, n: int)
    requires pf_rrs(p, off, n), 0 <= off <= p.len()
    ensures off <= pf_rrs_end(p, off, n) <= p.len(), pf_n_opt(p, off, n) >= 0, n > 0 ==> off < pf_rrs_end(p, off, n)
    decreases n
{ if n > 0 { lemma_pf_rr_spec(p, off, SecT::Answer, false); lemma_pf_rrs_bounds(p, pf_end(p, off), n - 1); } }

// the same n records, byte for byte, at another position of another buffer
pub proof fn lemma_pf_rrs_shift(p1: Seq<u8>, a: int, n: int, p2: Seq<u8>, b: int)
    requires pf_rrs(p1, a, n), 0 <= a <= p1.len(), b >= 0, b + (pf_rrs_end(p1, a, n) - a) <= p2.len(),
             forall|i: int| a <= i < pf_rrs_end(p1, a, n) ==> p1[i] == p2[i - a + b],
    ensures pf_rrs(p2, b, n), pf_rrs_end(p2, b, n) == pf_rrs_end(p1, a, n) - a + b, pf_n_opt(p2, b, n) == pf_n_opt(p1, a, n)
    decreases n
{
    if n > 0 {
        lemma_pf_rr_spec(p1, a, SecT::Answer, false);
        lemma_pf_rrs_bounds(p1, pf_end(p1, a), n - 1);
        lemma_pf_rr_shift(p1, a, p2, b);
        lemma_pf_rrs_shift(p1, pf_end(p1, a), n - 1, p2, pf_end(p1, a) - a + b);
    }
}
// append one record at the end of a run
pub proof fn lemma_pf_rrs_append(p: Seq<u8>, off: int, n: int)
    requires n >= 0, pf_rrs(p, off, n), pf_rr(p, pf_rrs_end(p, off, n))
    ensures pf_rrs(p, off, n + 1), pf_rrs_end(p, off, n + 1) == pf_end(p, pf_rrs_end(p, off, n)),
            pf_n_opt(p, off, n + 1) == pf_n_opt(p, off, n) + (if pf_is_opt(p, pf_rrs_end(p, off, n)) { 1int } else { 0int })
    decreases n
{ reveal_with_fuel(pf_rrs, 2); reveal_with_fuel(pf_rrs_end, 2); reveal_with_fuel(pf_n_opt, 2);
  if n > 0 { lemma_pf_rrs_append(p, pf_end(p, off), n - 1); } }
// a run of pointer-free records is what the validator accepts, given the OPT rules
pub proof fn lemma_pf_rrs_spec(p: Seq<u8>, off: int, n: int, sec: SecT, opt: Option<int>)
    requires pf_rrs(p, off, n), 0 <= off <= p.len(),
             pf_n_opt(p, off, n) + (if opt.is_some() { 1int } else { 0int }) <= (if sec is Additional { 1int } else { 0int }),
    ensures rrs(p, off, n, sec, opt) matches Some((e, o)) && e == pf_rrs_end(p, off, n) && (o.is_some() <==> (opt.is_some() || pf_n_opt(p, off, n) == 1))
    decreases n
{
    if n > 0 {
        lemma_pf_rr_spec(p, off, sec, opt.is_some());
        lemma_pf_rrs_bounds(p, pf_end(p, off), n - 1);
        let is_o = pf_is_opt(p, off);
        lemma_pf_rrs_spec(p, pf_end(p, off), n - 1, sec, if is_o { Some(off + 1) } else { opt });
    }
}

// ============ the expansion of a valid name is itself a valid, pointer-free, clean name with the same text ============
pub proof fn lemma_exp_pcs(p: Seq<u8>, off: int, barrier: int, lowest: int, refs: int, nlen: int, fend: Option<int>)
    requires walk(p, off, barrier, lowest, refs, nlen, fend).is_some(), nlen >= 0
    ensures pcs_walk(exp(p, off, barrier, lowest, refs, nlen), 0, nlen) == Some(exp(p, off, barrier, lowest, refs, nlen).len() as int)
    decreases refs, p.len() - off
{
    let e = exp(p, off, barrier, lowest, refs, nlen);
    let b = p[off];
    if b & 0xc0 == 0xc0 {
        let t = ptr_target(b, p[off + 1]);
        lemma_exp_pcs(p, t, lowest, t, refs - 1, nlen, if fend.is_some() { fend } else { Some(off + 2) });
    } else if b == 0 {
        assert(e =~= seq![0u8]);
        assert(0u8 & 0xc0 != 0xc0) by(bit_vector);
    } else {
        let e2 = exp(p, off + b + 1, barrier, lowest, refs, nlen + b + 1);
        lemma_exp_pcs(p, off + b + 1, barrier, lowest, refs, nlen + b + 1, fend);
        lemma_exp_len(p, off + b + 1, barrier, lowest, refs, nlen + b + 1, fend);
        assert(e == p.subrange(off, off + b + 1) + e2);
        assert(e[0] == b);
        assert(!has_bad(e, 1, 1 + b)) by {
            if has_bad(e, 1, 1 + b) {
                let i = choose|i: int| 1 <= i < 1 + b && bad_char(#[trigger] e[i]);
                assert(bad_char(p[off + i]));
            }
        }
        lemma_pcs_bounds(e2, 0, nlen + b + 1);
        assert forall|i: int| 0 <= i < e2.len() implies e2[i] == e[i + b + 1] by { }
        lemma_pcs_shift(e2, 0, e, b + 1, nlen + b + 1);
    }
}
pub proof fn lemma_name_exp_valid(p: Seq<u8>, off: int)
    requires name_end(p, off).is_some()
    ensures name_end(name_exp(p, off), 0) == Some(name_exp(p, off).len() as int), 1 <= name_exp(p, off).len() <= 255,
        pcs_end(name_exp(p, off), 0) == Some(name_exp(p, off).len() as int),
{
    lemma_exp_pcs(p, off, p.len() as int, off, 16, 0, None);
    lemma_exp_len(p, off, p.len() as int, off, 16, 0, None);
    lemma_pcs_name_end(name_exp(p, off), 0);
}

// text of a pointer-free clean name, independent of walk's bookkeeping
pub proof fn lemma_pcs_txt(w: Seq<u8>, i: int, lowest: int, refs: int, nlen: int, first: bool)
    requires pcs_walk(w, i, nlen).is_some(), 0 <= lowest <= i, refs >= 0
    ensures txt(w, i, w.len() as int, lowest, refs, nlen, first) == wire_txt(w, i, first)
    decreases w.len() - i
{
    let b = w[i];
    if b != 0 { lemma_pcs_txt(w, i + b + 1, lowest, refs, nlen + b + 1, false); }
}
pub proof fn lemma_wire_txt_shift(w1: Seq<u8>, a: int, w2: Seq<u8>, b: int, nlen: int, first: bool)
    requires pcs_walk(w1, a, nlen) matches Some(e) && b >= 0 && b + (e - a) <= w2.len() && (forall|i: int| a <= i < e ==> w1[i] == w2[i - a + b]),
    ensures wire_txt(w2, b, first) == wire_txt(w1, a, first)
    decreases w1.len() - a
{
    lemma_pcs_bounds(w1, a, nlen);
    let l = w1[a];
    assert(w2[b] == l);
    if l != 0 {
        lemma_pcs_bounds(w1, a + l + 1, nlen + l + 1);
        assert(w1.subrange(a + 1, a + 1 + l) =~= w2.subrange(b + 1, b + 1 + l));
        lemma_wire_txt_shift(w1, a + l + 1, w2, b + l + 1, nlen + l + 1, false);
    }
}
// the text of the expansion is the text of the compressed name
pub proof fn lemma_exp_txt(p: Seq<u8>, off: int, barrier: int, lowest: int, refs: int, nlen: int, fend: Option<int>, first: bool)
    requires walk(p, off, barrier, lowest, refs, nlen, fend).is_some(), nlen >= 0
    ensures wire_txt(exp(p, off, barrier, lowest, refs, nlen), 0, first) == txt(p, off, barrier, lowest, refs, nlen, first)
    decreases refs, p.len() - off
{
    let e = exp(p, off, barrier, lowest, refs, nlen);
    let b = p[off];
    if b & 0xc0 == 0xc0 {
        let t = ptr_target(b, p[off + 1]);
        lemma_exp_txt(p, t, lowest, t, refs - 1, nlen, if fend.is_some() { fend } else { Some(off + 2) }, first);
    } else if b == 0 {
        assert(e =~= seq![0u8]);
    } else {
        let e2 = exp(p, off + b + 1, barrier, lowest, refs, nlen + b + 1);
        lemma_exp_txt(p, off + b + 1, barrier, lowest, refs, nlen + b + 1, fend, false);
        lemma_exp_pcs(p, off + b + 1, barrier, lowest, refs, nlen + b + 1, fend);
        lemma_exp_len(p, off + b + 1, barrier, lowest, refs, nlen + b + 1, fend);
        assert(e == p.subrange(off, off + b + 1) + e2);
        assert(e[0] == b);
        assert(e.subrange(1, 1 + b) =~= p.subrange(off + 1, off + 1 + b));
        lemma_pcs_bounds(e2, 0, nlen + b + 1);
        assert forall|i: int| 0 <= i < e2.len() implies e2[i] == e[i + b + 1] by { }
        lemma_wire_txt_shift(e2, 0, e, b + 1, nlen + b + 1, false);
    }
}
pub proof fn lemma_name_exp_txt(p: Seq<u8>, off: int)
    requires name_end(p, off).is_some()
    ensures name_txt(name_exp(p, off), 0) == name_txt(p, off)
{
    let e = name_exp(p, off);
    lemma_exp_pcs(p, off, p.len() as int, off, 16, 0, None);
    lemma_exp_txt(p, off, p.len() as int, off, 16, 0, None, true);
    lemma_pcs_txt(e, 0, 0, 16, 0, true);
}

// ---- shared by the compressor, the renamer and the mutators
// a clean pointer-free complete name
pub open spec fn is_cname(s: Seq<u8>) -> bool { pcs_walk(s, 0, 0) == Some(s.len() as int) }
pub proof fn lemma_pcs_plain(p: Seq<u8>, off: int, nlen: int)
    requires pcs_walk(p, off, nlen).is_some()
    ensures plain_walk(p, off, nlen) == pcs_walk(p, off, nlen)
    decreases p.len() - off
{ let b = p[off]; if b != 0 { lemma_pcs_plain(p, off + b + 1, nlen + b + 1); } }
pub proof fn lemma_pcs_nlen(p: Seq<u8>, off: int, nlen: int, n2: int)
    requires pcs_walk(p, off, nlen).is_some(), 0 <= n2 <= nlen
    ensures pcs_walk(p, off, n2) == pcs_walk(p, off, nlen)
    decreases p.len() - off
{ let b = p[off]; if b != 0 { lemma_pcs_nlen(p, off + b + 1, nlen + b + 1, n2 + b + 1); } }
