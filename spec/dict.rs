// ===== spec/dict.rs: the suffix dictionary of the compressor (C06) =====
impl Suffix {
    pub open spec fn name(&self) -> Seq<u8> { self.suffix@.subrange(0, self.len as int) }
}
impl SuffixDict {
    // F1: representation invariant
    pub open spec fn wf(&self) -> bool {
        self.count <= 32 && self.index < 32 && self.index <= self.count && (self.count == 32 ==> self.index >= 1)
        && forall|i: int| 0 <= i < self.count ==> (
            3 <= (#[trigger] self.suffixes@[i]).len <= 127 && self.suffixes@[i].offset < 16384 && is_name(self.suffixes@[i].name()))
    }
    // abstract view: the live entries (name, offset in the output)
    pub open spec fn view(&self) -> Seq<(Seq<u8>, int)> {
        Seq::new(self.count as nat, |i: int| (self.suffixes@[i].name(), self.suffixes@[i].offset as int))
    }
}
// a is a complete name and b starts with the same name up to ASCII case
pub open spec fn names_eq_ci(a: Seq<u8>, b: Seq<u8>) -> bool {
    b.len() >= a.len() && forall|k: int| 0 <= k < a.len() ==> lower(#[trigger] a[k]) == lower(b[k])
}
// #[derive(Default)] on SuffixDict: every field is its type's default (0 for the counters)
pub assume_specification [<SuffixDict as core::default::Default>::default] () -> (r: SuffixDict)
    ensures r.count == 0, r.index == 0;

// off..k is a run of whole labels of the pointer-free name starting at off
pub open spec fn reach_plain(p: Seq<u8>, cur: int, k: int) -> bool
    decreases p.len() - cur
{
    if cur < 0 || cur >= p.len() { false }
    else if cur == k { true }
    else if cur > k || p[cur] == 0 || p[cur] > 63 || cur + p[cur] + 1 > p.len() { false }
    else { reach_plain(p, cur + p[cur] + 1, k) }
}
// what the name emitter may append for the name p[off..e): whole labels up to a boundary k, then either nothing more
// (the name was written out in full, root label included) or a two-byte pointer below 0x4000
pub open spec fn emitted(c0: Seq<u8>, c1: Seq<u8>, p: Seq<u8>, off: int, k: int, e: int) -> bool {
    (k == e && c1 == c0 + p.subrange(off, e))
    || (off <= k < e && reach_plain(p, off, k) && c1.len() == c0.len() + (k - off) + 2
        && c1.subrange(0, c0.len() + (k - off)) == c0 + p.subrange(off, k)
        && c1[c1.len() - 2] & 0xc0 == 0xc0 && ptr_target(c1[c1.len() - 2], c1[c1.len() - 1]) < 16384
        && e - k >= 3)
}
// the rest of a valid name, seen as a slice, is a complete name
pub proof fn lemma_suffix_is_name(p: Seq<u8>, off: int, nlen: int)
    requires pcs_walk(p, off, nlen) matches Some(e) && nlen >= 0
    ensures is_name(p.subrange(off, pcs_walk(p, off, nlen).unwrap())), pcs_walk(p, off, nlen).unwrap() - off + nlen <= 255,
        name_end(p, off).is_some(),
{
    let e = pcs_walk(p, off, nlen).unwrap();
    lemma_pcs_bounds(p, off, nlen);
    lemma_pcs_nlen(p, off, nlen, 0);
    lemma_pcs_plain(p, off, 0);
    let s = p.subrange(off, e);
    assert forall|i: int| off <= i < e implies p[i] == s[i - off + 0] by { }
    lemma_plain_shift(p, off, s, 0, 0);
    lemma_pcs_plain(p, off, nlen);
    lemma_plain_len(p, off, nlen);
    lemma_pcs_name_end(p, off);
}
pub proof fn lemma_reach_step(p: Seq<u8>, off: int, k: int)
    requires reach_plain(p, off, k), 0 <= k < p.len(), 0 < p[k] <= 63, k + p[k] + 1 < p.len()
    ensures reach_plain(p, off, k + p[k] + 1)
    decreases p.len() - off
{ if off != k { lemma_reach_step(p, off + p[off] + 1, k); } else { reveal_with_fuel(reach_plain, 2); } }
