// ===== spec/pfedit_names.rs: the expansion of a pointer-free clean name is the name itself =====
pub proof fn lemma_exp_pcs_id(v: Seq<u8>, off: int, lowest: int, refs: int, nlen: int)
    requires pcs_walk(v, off, nlen).is_some(), 0 <= lowest <= off, refs >= 0
    ensures exp(v, off, v.len() as int, lowest, refs, nlen) == v.subrange(off, pcs_walk(v, off, nlen).unwrap())
    decreases v.len() - off
{
    let b = v[off];
    lemma_pcs_bounds(v, off, nlen);
    if b == 0 { assert(v.subrange(off, off + 1) =~= seq![0u8]); }
    else {
        lemma_exp_pcs_id(v, off + b + 1, lowest, refs, nlen + b + 1);
        lemma_pcs_bounds(v, off + b + 1, nlen + b + 1);
        let e = pcs_walk(v, off, nlen).unwrap();
        assert(v.subrange(off, off + b + 1) + v.subrange(off + b + 1, e) =~= v.subrange(off, e));
    }
}
pub proof fn lemma_name_exp_id(v: Seq<u8>, off: int)
    requires pcs_end(v, off).is_some()
    ensures name_exp(v, off) == v.subrange(off, pcs_end(v, off).unwrap()), name_end(v, off) == pcs_end(v, off)
{ lemma_exp_pcs_id(v, off, off, 16, 0); lemma_pcs_name_end(v, off); }

