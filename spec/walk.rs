// ===== spec/walk.rs: the records of a section before and after one record is cut out (C11) =====
pub open spec fn rec_bytes(u: Seq<u8>, st: int, j: int) -> Seq<u8> { u.subrange(pf_rrs_end(u, st, j), pf_rrs_end(u, st, j + 1)) }
// every record boundary of a run of pointer-free records copied elsewhere
pub proof fn lemma_pf_rrs_ends_shift(p1: Seq<u8>, a: int, n: int, p2: Seq<u8>, b: int)
    requires pf_rrs(p1, a, n), 0 <= a <= p1.len(), b >= 0, b + (pf_rrs_end(p1, a, n) - a) <= p2.len(),
             forall|i: int| a <= i < pf_rrs_end(p1, a, n) ==> p1[i] == p2[i - a + b],
    ensures forall|j: int| 0 <= j <= n ==> #[trigger] pf_rrs_end(p2, b, j) == pf_rrs_end(p1, a, j) - a + b,
        forall|j: int| 0 <= j <= n ==> a <= #[trigger] pf_rrs_end(p1, a, j) <= pf_rrs_end(p1, a, n),
{
    hide(pf_rr);
    assert forall|j: int| 0 <= j <= n implies #[trigger] pf_rrs_end(p2, b, j) == pf_rrs_end(p1, a, j) - a + b by {
        lemma_pf_rrs_split(p1, a, n, j);
        lemma_pf_rrs_bounds(p1, a, j);
        lemma_pf_rrs_bounds(p1, pf_rrs_end(p1, a, j), n - j);
        lemma_pf_rrs_bounds(p1, a, n);
        lemma_pf_rrs_shift(p1, a, j, p2, b);
    }
    assert forall|j: int| 0 <= j <= n implies a <= #[trigger] pf_rrs_end(p1, a, j) <= pf_rrs_end(p1, a, n) by { lemma_pf_rrs_mono(p1, a, n, 0, j); lemma_pf_rrs_mono(p1, a, n, j, n); }
}
pub proof fn lemma_pf_rrs_mono(p: Seq<u8>, s: int, n: int, i: int, j: int)
    requires pf_rrs(p, s, n), 0 <= s <= p.len(), 0 <= i <= j <= n
    ensures s <= pf_rrs_end(p, s, i) <= pf_rrs_end(p, s, j) <= pf_rrs_end(p, s, n) <= p.len()
{
    hide(pf_rr);
    lemma_pf_rrs_split(p, s, n, j); lemma_pf_rrs_split(p, s, j, i);
    lemma_pf_rrs_bounds(p, s, i); lemma_pf_rrs_bounds(p, pf_rrs_end(p, s, i), j - i); lemma_pf_rrs_bounds(p, pf_rrs_end(p, s, j), n - j);
}
// record k of the run is cut out: the records before it keep their bytes and place, the records after it keep their bytes and move up
pub proof fn lemma_cut_recs(u: Seq<u8>, v: Seq<u8>, st: int, n: int, k: int)
    requires pf_rrs(u, st, n), 0 <= st <= u.len(), 0 <= k < n, pf_rrs(v, st, n - 1),
        ({ let o = pf_rrs_end(u, st, k); let next = pf_rrs_end(u, st, k + 1); let e = pf_rrs_end(u, st, n);
           e - (next - o) <= v.len()
           && (forall|i: int| st <= i < o ==> v[i] == u[i])
           && (forall|i: int| o <= i < e - (next - o) ==> v[i] == u[i + (next - o)]) }),
    ensures forall|j: int| 0 <= j < k ==> #[trigger] rec_bytes(v, st, j) == rec_bytes(u, st, j),
        forall|j: int| k <= j < n - 1 ==> #[trigger] rec_bytes(v, st, j) == rec_bytes(u, st, j + 1),
{
    hide(pf_rr);
    let o = pf_rrs_end(u, st, k); let next = pf_rrs_end(u, st, k + 1); let e = pf_rrs_end(u, st, n); let d = next - o;
    lemma_pf_rrs_split(u, st, n, k); lemma_pf_rrs_split(u, st, n, k + 1); lemma_pf_rrs_split(u, st, k + 1, k);
    lemma_pf_rrs_bounds(u, st, k); lemma_pf_rrs_bounds(u, o, 1); lemma_pf_rrs_bounds(u, next, n - k - 1);
    // prefix: k records in place
    assert forall|i: int| st <= i < pf_rrs_end(u, st, k) implies u[i] == v[i - st + st] by { }
    lemma_pf_rrs_ends_shift(u, st, k, v, st);
    // suffix: n-k-1 records moved from next to o
    assert forall|i: int| next <= i < pf_rrs_end(u, next, n - k - 1) implies u[i] == v[i - next + o] by { assert(v[i - d] == u[(i - d) + d]); }
    lemma_pf_rrs_ends_shift(u, next, n - k - 1, v, o);
    assert(pf_rrs_end(v, st, k) == o);
    assert forall|j: int| 0 <= j < k implies #[trigger] rec_bytes(v, st, j) == rec_bytes(u, st, j) by {
        let a = pf_rrs_end(u, st, j); let b = pf_rrs_end(u, st, j + 1);
        assert(pf_rrs_end(v, st, j) == a && pf_rrs_end(v, st, j + 1) == b);
        lemma_pf_rrs_mono(u, st, n, j, j + 1); lemma_pf_rrs_mono(u, st, n, j + 1, k);
        assert(a <= b <= o);
        assert(v.subrange(a, b) =~= u.subrange(a, b));
    }
    assert forall|j: int| k <= j < n - 1 implies #[trigger] rec_bytes(v, st, j) == rec_bytes(u, st, j + 1) by {
        let i = j - k;
        // boundaries k+i and k+i+1 of v are boundaries i and i+1 of the moved suffix
        lemma_pf_rrs_split(v, st, n - 1, k);
        lemma_pf_rrs_split(v, st, n - 1, j); lemma_pf_rrs_split(v, st, j, k);
        lemma_pf_rrs_split(v, st, n - 1, j + 1); lemma_pf_rrs_split(v, st, j + 1, k);
        lemma_pf_rrs_split(u, st, n, j + 1); lemma_pf_rrs_split(u, st, j + 1, k + 1);
        lemma_pf_rrs_split(u, st, n, j + 2); lemma_pf_rrs_split(u, st, j + 2, k + 1);
        let a = pf_rrs_end(u, st, j + 1); let b = pf_rrs_end(u, st, j + 2);
        assert(pf_rrs_end(u, next, i) == a && pf_rrs_end(u, next, i + 1) == b);
        assert(pf_rrs_end(v, o, i) == a - d && pf_rrs_end(v, o, i + 1) == b - d);
        assert(pf_rrs_end(v, st, j) == a - d && pf_rrs_end(v, st, j + 1) == b - d);
        lemma_pf_rrs_mono(u, st, n, k + 1, j + 1); lemma_pf_rrs_mono(u, st, n, j + 1, j + 2);
        assert(next <= a <= b <= e);
        assert(v.subrange(a - d, b - d) =~= u.subrange(a, b));
    }
}

// ---- C09 "All other records, their order ... stay equal": the records of a run under the edit of spec/pfmut.rs
pub proof fn lemma_shifted_recs(p1: Seq<u8>, a: int, n: int, p2: Seq<u8>, b: int)
    requires pf_rrs(p1, a, n), 0 <= a <= p1.len(), b >= 0, b + (pf_rrs_end(p1, a, n) - a) <= p2.len(),
             forall|i: int| a <= i < pf_rrs_end(p1, a, n) ==> p1[i] == p2[i - a + b],
    ensures forall|j: int| 0 <= j < n ==> #[trigger] rec_bytes(p2, b, j) == rec_bytes(p1, a, j),
{
    hide(pf_rr);
    lemma_pf_rrs_ends_shift(p1, a, n, p2, b);
    assert forall|j: int| 0 <= j < n implies #[trigger] rec_bytes(p2, b, j) == rec_bytes(p1, a, j) by {
        let x = pf_rrs_end(p1, a, j); let y = pf_rrs_end(p1, a, j + 1);
        lemma_pf_rrs_mono(p1, a, n, j, j + 1);
        assert(pf_rrs_end(p2, b, j) == x - a + b && pf_rrs_end(p2, b, j + 1) == y - a + b);
        assert(p2.subrange(x - a + b, y - a + b) =~= p1.subrange(x, y));
    }
}
pub proof fn lemma_run_edit_recs(u: Seq<u8>, st: int, n: int, k: int, rm: int, v: Seq<u8>, wl: int, m: int)
    requires run_edit_pre(u, st, n, k, rm, v, wl, m)
    ensures forall|j: int| 0 <= j < k ==> #[trigger] rec_bytes(v, st, j) == rec_bytes(u, st, j),
        forall|j: int| k + rm <= j < n ==> rec_bytes(v, st, j - rm + m) == #[trigger] rec_bytes(u, st, j),
{
    hide(pf_rr);
    let a = pf_rrs_end(u, st, k); let b = pf_rrs_end(u, st, k + rm); let e = pf_rrs_end(u, st, n); let d = wl - (b - a);
    lemma_run_edit(u, st, n, k, rm, v, wl, m);
    lemma_pf_rrs_split(u, st, n, k); lemma_pf_rrs_split(u, st, n, k + rm);
    // prefix in place
    assert forall|i: int| st <= i < pf_rrs_end(u, st, k) implies u[i] == v[i - st + st] by { }
    lemma_shifted_recs(u, st, k, v, st);
    // suffix moved by d: record i of the suffix is record k+rm+i of u and record k+m+i of v
    assert forall|i: int| b <= i < pf_rrs_end(u, b, n - k - rm) implies u[i] == v[i - b + (a + wl)] by { assert(v[i + d] == u[i]); }
    lemma_shifted_recs(u, b, n - k - rm, v, a + wl);
    lemma_pf_rrs_one(v, a);
    assert forall|j: int| k + rm <= j < n implies rec_bytes(v, st, j - rm + m) == #[trigger] rec_bytes(u, st, j) by {
        let i = j - k - rm;
        assert(rec_bytes(v, a + wl, i) == rec_bytes(u, b, i));
        // boundaries of u
        lemma_pf_rrs_split(u, st, n, j); lemma_pf_rrs_split(u, st, j, k + rm);
        lemma_pf_rrs_split(u, st, n, j + 1); lemma_pf_rrs_split(u, st, j + 1, k + rm);
        assert(pf_rrs_end(u, b, i) == pf_rrs_end(u, st, j) && pf_rrs_end(u, b, i + 1) == pf_rrs_end(u, st, j + 1));
        // boundaries of v: k prefix records, m new ones, then the suffix
        let nv = n - rm + m;
        lemma_pf_rrs_split(v, st, nv, k + m); lemma_pf_rrs_split(v, st, k + m, k);
        assert(pf_rrs_end(v, st, k + m) == a + wl) by { if m == 1 { } }
        lemma_pf_rrs_split(v, st, nv, k + m + i); lemma_pf_rrs_split(v, st, k + m + i, k + m);
        lemma_pf_rrs_split(v, st, nv, k + m + i + 1); lemma_pf_rrs_split(v, st, k + m + i + 1, k + m);
        assert(pf_rrs_end(v, a + wl, i) == pf_rrs_end(v, st, k + m + i) && pf_rrs_end(v, a + wl, i + 1) == pf_rrs_end(v, st, k + m + i + 1));
    }
}
// the whole packet: every record of every section other than the edited one keeps its bytes and its index; in the edited section the
// records before position k keep index and bytes, the records after the removed one keep their bytes and follow the new one
pub open spec fn others_kept(u: Seq<u8>, v: Seq<u8>, si: int, k: int, rm: int, m: int) -> bool {
    v.subrange(12, pf_q_end(u)) == u.subrange(12, pf_q_end(u))
    && (forall|sj: int, j: int| 1 <= sj <= 3 && sj != si && 0 <= j < sec_n(u, sj) ==> #[trigger] rec_bytes(v, sec_st(v, sj), j) == rec_bytes(u, sec_st(u, sj), j))
    && (forall|j: int| 0 <= j < k ==> #[trigger] rec_bytes(v, sec_st(v, si), j) == rec_bytes(u, sec_st(u, si), j))
    && (forall|j: int| k + rm <= j < sec_n(u, si) ==> rec_bytes(v, sec_st(v, si), j - rm + m) == #[trigger] rec_bytes(u, sec_st(u, si), j))
}
pub proof fn lemma_pkt_edit_recs(u: Seq<u8>, v: Seq<u8>, si: int, k: int, rm: int, wl: int, m: int)
    requires pkt_edit_pre(u, v, si, k, rm, wl, m)
    ensures others_kept(u, v, si, k, rm, m)
{
    hide(pf_rr); hide(pf_rrs); hide(pf_rrs_end); hide(pf_n_opt); hide(pf_packet); hide(rec_bytes);
    let st = sec_st(u, si); let n = sec_n(u, si); let a = pf_rrs_end(u, st, k); let b = pf_rrs_end(u, st, k + rm); let d = wl - (b - a);
    let o1 = pf_q_end(u); let an = be16(u, 6) as int; let ns = be16(u, 8) as int; let ar = be16(u, 10) as int; let e1 = pf_e1(u); let e2 = pf_e2(u);
    lemma_pkt_edit(u, v, si, k, rm, wl, m);
    lemma_pf_packet_facts(u);
    assert(v.subrange(12, o1) =~= u.subrange(12, o1));
    assert(run_edit_pre(u, st, n, k, rm, v, wl, m)) by {
        lemma_pf_rrs_split(u, st, n, k + rm); lemma_pf_rrs_bounds(u, st, k + rm); lemma_pf_rrs_bounds(u, b, n - k - rm);
    }
    lemma_run_edit_recs(u, st, n, k, rm, v, wl, m);
    if si == 1 {
        assert forall|i: int| e1 <= i < pf_rrs_end(u, e1, ns) implies u[i] == v[i - e1 + (e1 + d)] by { assert(v[i + d] == u[i]); }
        lemma_shifted_recs(u, e1, ns, v, e1 + d);
        assert forall|i: int| e2 <= i < pf_rrs_end(u, e2, ar) implies u[i] == v[i - e2 + (e2 + d)] by { assert(v[i + d] == u[i]); }
        lemma_shifted_recs(u, e2, ar, v, e2 + d);
    } else if si == 2 {
        assert forall|i: int| o1 <= i < pf_rrs_end(u, o1, an) implies u[i] == v[i - o1 + o1] by { }
        lemma_shifted_recs(u, o1, an, v, o1);
        assert forall|i: int| e2 <= i < pf_rrs_end(u, e2, ar) implies u[i] == v[i - e2 + (e2 + d)] by { assert(v[i + d] == u[i]); }
        lemma_shifted_recs(u, e2, ar, v, e2 + d);
    } else {
        assert forall|i: int| o1 <= i < pf_rrs_end(u, o1, an) implies u[i] == v[i - o1 + o1] by { }
        lemma_shifted_recs(u, o1, an, v, o1);
        assert forall|i: int| e1 <= i < pf_rrs_end(u, e1, ns) implies u[i] == v[i - e1 + e1] by { }
        lemma_shifted_recs(u, e1, ns, v, e1);
    }
    assert forall|sj: int, j: int| 1 <= sj <= 3 && sj != si && 0 <= j < sec_n(u, sj) implies #[trigger] rec_bytes(v, sec_st(v, sj), j) == rec_bytes(u, sec_st(u, sj), j) by { }
}

// ---- C09 for the three operations on a record section of a pointer-free packet: everything else keeps its bytes and its order
pub proof fn lemma_named_recs(fin: ParsedPacket, mid: ParsedPacket, si: int, k: int, nm: Seq<u8>)
    requires mid.wf(), pf_packet(mid.bytes()), 1 <= si <= 3, 0 <= k < sec_n(mid.bytes(), si), is_cname(nm),
        ({ let u = mid.bytes(); let o = pf_rrs_end(u, sec_st(u, si), k); !pf_is_opt(u, o) && named(fin, mid, o as usize, pcs_end(u, o).unwrap(), nm) }),
    ensures ({ let u = mid.bytes(); let v = fin.bytes(); let st = sec_st(u, si); let o = pf_rrs_end(u, st, k); let ne = pcs_end(u, o).unwrap();
        others_kept(u, v, si, k, 1, 1)
        // the record itself: the new owner name followed by the old type / class / TTL / RDLENGTH / RDATA
        && rec_bytes(v, st, k) == nm + u.subrange(ne, pf_end(u, o)) }),
{
    hide(pf_rr); hide(pf_rrs); hide(pf_n_opt); hide(pf_packet); hide(ParsedPacket::wf); hide(pcs_walk);
    let u = mid.bytes(); let v = fin.bytes(); let st = sec_st(u, si); let n = sec_n(u, si); let o = pf_rrs_end(u, st, k); let ne = pcs_end(u, o).unwrap(); let next = pf_end(u, o);
    lemma_named_wf(fin, mid, si, k, nm);
    lemma_pkt_edit_recs(u, v, si, k, 1, nm.len() + (next - ne), 1);
    lemma_pf_packet_facts(v);
    lemma_opt_at_3(v, st, n, k, 1);
    lemma_section_at(mid, si, k);
    lemma_pf_rr_spec(u, o, SecT::Answer, false);
    lemma_pcs_bounds(u, o, 0);
    assert(pcs_end(u, o).is_some() && o < ne && ne + 10 <= next && next <= u.len()) by { reveal(pf_rr); }
    assert(v.subrange(o, o + nm.len() + (next - ne)) =~= nm + u.subrange(ne, next));
}
pub proof fn lemma_deleted_recs(fin: ParsedPacket, mid: ParsedPacket, si: int, k: int)
    requires mid.wf(), pf_packet(mid.bytes()), 1 <= si <= 3, 0 <= k < sec_n(mid.bytes(), si),
        ({ let u = mid.bytes(); let o = pf_rrs_end(u, sec_st(u, si), k); deleted(fin, mid, o as usize, pf_end(u, o), sec_of_idx(si), si == 3 && pf_is_opt(u, o)) }),
    ensures others_kept(mid.bytes(), fin.bytes(), si, k, 1, 0)
{
    lemma_deleted_wf(fin, mid, si, k);
    lemma_pkt_edit_recs(mid.bytes(), fin.bytes(), si, k, 1, 0, 0);
}
pub proof fn lemma_inserted_recs(fin: ParsedPacket, mid: ParsedPacket, si: int, rr: Seq<u8>)
    requires mid.wf(), pf_packet(mid.bytes()), 1 <= si <= 3, sec_n(mid.bytes(), si) < 0xffff, pf_rr(rr, 0), pf_end(rr, 0) == rr.len(), !pf_is_opt(rr, 0),
        inserted(fin, mid, sec_of_idx(si), rr),
    ensures ({ let u = mid.bytes(); let v = fin.bytes(); let n = sec_n(u, si);
        others_kept(u, v, si, n, 0, 1) && rec_bytes(v, sec_st(u, si), n) == rr }),
{
    hide(pf_rr); hide(pf_rrs); hide(pf_n_opt); hide(pf_packet); hide(ParsedPacket::wf); hide(pcs_walk); hide(inserted);
    let u = mid.bytes(); let v = fin.bytes(); let st = sec_st(u, si); let n = sec_n(u, si); let a = pf_rrs_end(u, st, n);
    lemma_inserted_wf(fin, mid, si, rr);
    lemma_pkt_edit_recs(u, v, si, n, 0, rr.len() as int, 1);
    lemma_pf_packet_facts(v);
    lemma_opt_at_3(v, st, n + 1, n, 1);
    lemma_pf_packet_facts(u);
    lemma_pf_rrs_bounds(u, st, n);
    assert(v.subrange(a, a + rr.len()) =~= rr) by { reveal(inserted); lemma_pf_rr_spec(rr, 0, SecT::Answer, false); }
}
