// ===== spec/walk.rs: the records of a section before and after one record is cut out (C11) =====
pub open spec fn rec_bytes(u: Seq<u8>, st: int, j: int) -> Seq<u8> { u.subrange(pf_rrs_end(u, st, j), pf_rrs_end(u, st, j + 1)) }
// every record boundary of a run of pointer-free records copied elsewhere
pub proof fn lemma_pf_rrs_ends_shift(p1: Seq<u8>, a: int, n: int, p2: Seq<u8>, b: int)
    requires pf_rrs(p1, a, n), 0 <= a <= p1.len(), b >= 0, b + (pf_rrs_end(p1, a, n) - a) <= p2.len(),
             forall|i: int| a <= i < pf_rrs_end(p1, a, n) ==> p1[i] == p2[i - a + b],
    ensures forall|j: int| 0 <= j <= n ==> #[trigger] pf_rrs_end(p2, b, j) == pf_rrs_end(p1, a, j) - a + b,
        forall|j: int| 0 <= j <= n ==> a <= #[trigger] pf_rrs_end(p1, a, j) <= pf_rrs_end(p1, a, n),
{
    hide(pf_rr);
    assert forall|j: int| 0 <= j <= n implies #[trigger] pf_rrs_end(p2, b, j) == pf_rrs_end(p1, a, j) - a + b by {
        lemma_pf_rrs_split(p1, a, n, j);
        lemma_pf_rrs_bounds(p1, a, j);
        lemma_pf_rrs_bounds(p1, pf_rrs_end(p1, a, j), n - j);
        lemma_pf_rrs_bounds(p1, a, n);
        lemma_pf_rrs_shift(p1, a, j, p2, b);
    }
    assert forall|j: int| 0 <= j <= n implies a <= #[trigger] pf_rrs_end(p1, a, j) <= pf_rrs_end(p1, a, n) by { lemma_pf_rrs_mono(p1, a, n, 0, j); lemma_pf_rrs_mono(p1, a, n, j, n); }
}
pub proof fn lemma_pf_rrs_mono(p: Seq<u8>, s: int, n: int, i: int, j: int)
    requires pf_rrs(p, s, n), 0 <= s <= p.len(), 0 <= i <= j <= n
    ensures s <= pf_rrs_end(p, s, i) <= pf_rrs_end(p, s, j) <= pf_rrs_end(p, s, n) <= p.len()
{
    hide(pf_rr);
    lemma_pf_rrs_split(p, s, n, j); lemma_pf_rrs_split(p, s, j, i);
    lemma_pf_rrs_bounds(p, s, i); lemma_pf_rrs_bounds(p, pf_rrs_end(p, s, i), j - i); lemma_pf_rrs_bounds(p, pf_rrs_end(p, s, j), n - j);
}
// record k of the run is cut out: the records before it keep their bytes and place, the records after it keep their bytes and move up
pub proof fn lemma_cut_recs(u: Seq<u8>, v: Seq<u8>, st: int, n: int, k: int)
    requires pf_rrs(u, st, n), 0 <= st <= u.len(), 0 <= k < n, pf_rrs(v, st, n - 1),
        ({ let o = pf_rrs_end(u, st, k); let next = pf_rrs_end(u, st, k + 1); let e = pf_rrs_end(u, st, n);
           e - (next - o) <= v.len()
           && (forall|i: int| st <= i < o ==> v[i] == u[i])
           && (forall|i: int| o <= i < e - (next - o) ==> v[i] == u[i + (next - o)]) }),
    ensures forall|j: int| 0 <= j < k ==> #[trigger] rec_bytes(v, st, j) == rec_bytes(u, st, j),
        forall|j: int| k <= j < n - 1 ==> #[trigger] rec_bytes(v, st, j) == rec_bytes(u, st, j + 1),
{
    hide(pf_rr);
    let o = pf_rrs_end(u, st, k); let next = pf_rrs_end(u, st, k + 1); let e = pf_rrs_end(u, st, n); let d = next - o;
    lemma_pf_rrs_split(u, st, n, k); lemma_pf_rrs_split(u, st, n, k + 1); lemma_pf_rrs_split(u, st, k + 1, k);
    lemma_pf_rrs_bounds(u, st, k); lemma_pf_rrs_bounds(u, o, 1); lemma_pf_rrs_bounds(u, next, n - k - 1);
    // prefix: k records in place
    assert forall|i: int| st <= i < pf_rrs_end(u, st, k) implies u[i] == v[i - st + st] by { }
    lemma_pf_rrs_ends_shift(u, st, k, v, st);
    // suffix: n-k-1 records moved from next to o
    assert forall|i: int| next <= i < pf_rrs_end(u, next, n - k - 1) implies u[i] == v[i - next + o] by { assert(v[i - d] == u[(i - d) + d]); }
    lemma_pf_rrs_ends_shift(u, next, n - k - 1, v, o);
    assert(pf_rrs_end(v, st, k) == o);
    assert forall|j: int| 0 <= j < k implies #[trigger] rec_bytes(v, st, j) == rec_bytes(u, st, j) by {
        let a = pf_rrs_end(u, st, j); let b = pf_rrs_end(u, st, j + 1);
        assert(pf_rrs_end(v, st, j) == a && pf_rrs_end(v, st, j + 1) == b);
        lemma_pf_rrs_mono(u, st, n, j, j + 1); lemma_pf_rrs_mono(u, st, n, j + 1, k);
        assert(a <= b <= o);
        assert(v.subrange(a, b) =~= u.subrange(a, b));
    }
    assert forall|j: int| k <= j < n - 1 implies #[trigger] rec_bytes(v, st, j) == rec_bytes(u, st, j + 1) by {
        let i = j - k;
        // boundaries k+i and k+i+1 of v are boundaries i and i+1 of the moved suffix
        lemma_pf_rrs_split(v, st, n - 1, k);
        lemma_pf_rrs_split(v, st, n - 1, j); lemma_pf_rrs_split(v, st, j, k);
        lemma_pf_rrs_split(v, st, n - 1, j + 1); lemma_pf_rrs_split(v, st, j + 1, k);
        lemma_pf_rrs_split(u, st, n, j + 1); lemma_pf_rrs_split(u, st, j + 1, k + 1);
        lemma_pf_rrs_split(u, st, n, j + 2); lemma_pf_rrs_split(u, st, j + 2, k + 1);
        let a = pf_rrs_end(u, st, j + 1); let b = pf_rrs_end(u, st, j + 2);
        assert(pf_rrs_end(u, next, i) == a && pf_rrs_end(u, next, i + 1) == b);
        assert(pf_rrs_end(v, o, i) == a - d && pf_rrs_end(v, o, i + 1) == b - d);
        assert(pf_rrs_end(v, st, j) == a - d && pf_rrs_end(v, st, j + 1) == b - d);
        lemma_pf_rrs_mono(u, st, n, k + 1, j + 1); lemma_pf_rrs_mono(u, st, n, j + 1, j + 2);
        assert(next <= a <= b <= e);
        assert(v.subrange(a - d, b - d) =~= u.subrange(a, b));
    }
}
