// ===== spec/cacc.rs: records and sections of a growing output buffer (C06: "returns an accepted packet") =====
pub proof fn lemma_name_end_ext(p: Seq<u8>, p2: Seq<u8>, off: int)
    requires name_end(p, off).is_some(), p.len() <= p2.len(), forall|i: int| 0 <= i < p.len() ==> p2[i] == p[i]
    ensures name_end(p2, off) == name_end(p, off), name_exp(p2, off) == name_exp(p, off)
{
    lemma_hops_bounds(p, off, p.len() as int, off, 16, 0);
    lemma_exp_len(p, off, p.len() as int, off, 16, 0, None);
    lemma_walk_transport(p, p2, off, p.len() as int, p2.len() as int, off, 16, 16, 0, 0, None, 0, 0);
}
// a record that is valid in the output stays the same record when the output grows
pub proof fn lemma_rr_spec_ext(p: Seq<u8>, p2: Seq<u8>, off: int, sec: SecT, seen: bool)
    requires rr_spec(p, off, sec, seen).is_some(), p.len() <= p2.len(), forall|i: int| 0 <= i < p.len() ==> p2[i] == p[i]
    ensures rr_spec(p2, off, sec, seen) == rr_spec(p, off, sec, seen)
{
    let ne = name_end(p, off).unwrap(); let t = be16(p, ne); let l = be16(p, ne + 8) as int; let d = ne + 10;
    lemma_name_end_ext(p, p2, off);
    lemma_name_end_bounds(p, off);
    assert(be16(p2, ne) == t && be16(p2, ne + 8) == be16(p, ne + 8));
    if t == 41 { assert forall|i: int| d <= i < d + l implies p[i] == p2[i - d + d] by { } lemma_opts_shift(p, d, d + l, p2, d); }
    else if t == 2 || t == 5 || t == 12 { lemma_name_end_ext(p, p2, d); }
    else if t == 15 { lemma_name_end_ext(p, p2, d + 2); }
    else if t == 6 { lemma_name_end_ext(p, p2, d); lemma_name_end_ext(p, p2, name_end(p, d).unwrap()); }
    else if t == 39 { lemma_plain_bounds(p, d, 0); assert forall|i: int| d <= i < d + l implies p[i] == p2[i - d + d] by { } lemma_plain_shift(p, d, p2, d, 0); }
}
pub proof fn lemma_rrs_ext(p: Seq<u8>, p2: Seq<u8>, off: int, n: int, sec: SecT, opt: Option<int>)
    requires rrs(p, off, n, sec, opt).is_some(), p.len() <= p2.len(), forall|i: int| 0 <= i < p.len() ==> p2[i] == p[i]
    ensures rrs(p2, off, n, sec, opt) == rrs(p, off, n, sec, opt)
    decreases n
{
    if n > 0 {
        lemma_rr_spec_ext(p, p2, off, sec, opt.is_some());
        let r = rr_spec(p, off, sec, opt.is_some()).unwrap();
        lemma_rrs_ext(p, p2, r.0, n - 1, sec, if r.1 { Some(off + 1) } else { opt });
    }
}
// one more record at the end of a run
pub proof fn lemma_rrs_append(p: Seq<u8>, off: int, n: int, sec: SecT, opt: Option<int>)
    requires n >= 0, rrs(p, off, n, sec, opt) matches Some(r) && rr_spec(p, r.0, sec, r.1.is_some()).is_some()
    ensures ({ let r = rrs(p, off, n, sec, opt).unwrap(); let q = rr_spec(p, r.0, sec, r.1.is_some()).unwrap();
        rrs(p, off, n + 1, sec, opt) == Some((q.0, if q.1 { Some(r.0 + 1) } else { r.1 })) }),
    decreases n
{
    if n > 0 {
        let q = rr_spec(p, off, sec, opt.is_some()).unwrap();
        lemma_rrs_append(p, q.0, n - 1, sec, if q.1 { Some(off + 1) } else { opt });
    } else { reveal_with_fuel(rrs, 2); }
}

// the data rules of a pointer-free record whose owner name ends at ne (pf_rr without its owner-name part)
pub open spec fn pf_rdata(p: Seq<u8>, ne: int) -> bool {
    let t = be16(p, ne); let l = be16(p, ne + 8) as int; let d = ne + 10;
    0 <= ne && ne + 10 <= p.len() && (
        if t == 41 { d + l <= p.len() && opts(p, d, d + l).is_some() }
        else if t == 2 || t == 5 || t == 12 { pcs_end(p, d) == Some(d + l) }
        else if t == 15 { l > 2 && pcs_end(p, d + 2) == Some(d + l) }
        else if t == 6 { pcs_end(p, d) matches Some(n1) && (pcs_end(p, n1) matches Some(n2) && l > 21 && n2 + 20 == d + l && d + l <= p.len()) }
        else if t == 39 { plain_end(p, d) == Some(d + l) }
        else if t == 1 { l == 4 && d + l <= p.len() }
        else if t == 28 { l == 16 && d + l <= p.len() }
        else { d + l <= p.len() })
}
pub proof fn lemma_pf_rdata(p: Seq<u8>, off: int)
    requires pf_rr(p, off), 0 <= off
    ensures pf_rdata(p, pcs_end(p, off).unwrap()), pf_rd_ok(p, pcs_end(p, off).unwrap())
{ lemma_pcs_bounds(p, off, 0); }
// what the parser demands of the data of a record of type t whose fixed part starts at h, when the record ends the output
pub open spec fn out_rdata(out: Seq<u8>, h: int, t: u16) -> bool {
    let l = be16(out, h + 8) as int; let d = h + 10;
    0 <= h && h + 10 <= out.len() && be16(out, h) == t && d + l == out.len() && (
        if t == 41 { opts(out, d, d + l).is_some() }
        else if t == 2 || t == 5 || t == 12 { name_end(out, d) == Some(d + l) }
        else if t == 15 { l > 2 && name_end(out, d + 2) == Some(d + l) }
        else if t == 6 { name_end(out, d) matches Some(n1) && (name_end(out, n1) matches Some(n2) && l > 21 && n2 + 20 == d + l) }
        else if t == 39 { plain_end(out, d) == Some(d + l) }
        else if t == 1 { l == 4 } else if t == 28 { l == 16 } else { true })
}
// C06: an emitted record is a record the parser accepts
pub proof fn lemma_out_record(out: Seq<u8>, s: int, h: int, t: u16, sec: SecT, seen: bool)
    requires name_end(out, s) == Some(h), out_rdata(out, h, t), t == 41 ==> sec is Additional && !seen && h == s + 1
    ensures rr_spec(out, s, sec, seen) == Some((out.len() as int, t == 41))
{ }

// ---- packet level
pub open spec fn q_ok(out: Seq<u8>, qe2: int) -> bool { out.len() >= 12 && name_end(out, 12) == Some(qe2) && qe2 + 4 <= out.len() && be16(out, qe2 + 2) == 1 }
pub proof fn lemma_q_ok_ext(out: Seq<u8>, out2: Seq<u8>, qe2: int)
    requires q_ok(out, qe2), out.len() <= out2.len(), forall|i: int| 0 <= i < out.len() ==> out2[i] == out[i]
    ensures q_ok(out2, qe2)
{ lemma_name_end_ext(out, out2, 12); lemma_name_end_bounds(out, 12); }
pub proof fn lemma_n_opt_mono(p: Seq<u8>, s: int, k: int, n: int)
    requires 0 <= k <= n
    ensures n_opt(p, s, k) <= n_opt(p, s, n)
    decreases n - k
{ if k < n { lemma_n_opt_append(p, s, n - 1); lemma_n_opt_mono(p, s, k, n - 1); } }
// C06: "compression ... returns an accepted packet": the question and the three record runs of the output, under the input's header
pub proof fn lemma_accept(out: Seq<u8>, p: Seq<u8>, qe2: int, o2: int, o3: int, opt4: Option<int>)
    requires wf_packet(p), out.len() >= 12, out.subrange(0, 12) == p.subrange(0, 12), q_ok(out, qe2),
        rrs(out, qe2 + 4, be16(p, 6) as int, SecT::Answer, None) == Some((o2, None::<int>)),
        rrs(out, o2, be16(p, 8) as int, SecT::NameServers, None) == Some((o3, None::<int>)),
        rrs(out, o3, be16(p, 10) as int, SecT::Additional, None) == Some((out.len() as int, opt4)),
    ensures wf_packet(out)
{
    assert(p.len() >= 12);
    assert forall|i: int| 0 <= i < 12 implies out[i] == p[i] by { assert(out[i] == out.subrange(0, 12)[i]); assert(p[i] == p.subrange(0, 12)[i]); }
    assert(be16(out, 2) == be16(p, 2) && be16(out, 4) == be16(p, 4) && be16(out, 6) == be16(p, 6) && be16(out, 8) == be16(p, 8) && be16(out, 10) == be16(p, 10));
}

// ---- C06 "header, record sequence and record contents equal the input's, names being equal up to ASCII case"
// data of one record: out has its fixed part at ho, the pointer-free input has it at ne
pub open spec fn rd_ci(out: Seq<u8>, ho: int, p: Seq<u8>, ne: int) -> bool {
    let t = be16(p, ne); let l = be16(p, ne + 8) as int; let d = ne + 10; let d2 = ho + 10;
    out.subrange(ho, ho + 8) == p.subrange(ne, ne + 8) && (
        if t == 2 || t == 5 || t == 12 { eq_ci(name_exp(out, d2), p.subrange(d, d + l)) }
        else if t == 15 { out.subrange(d2, d2 + 2) == p.subrange(d, d + 2) && eq_ci(name_exp(out, d2 + 2), p.subrange(d + 2, d + l)) }
        else if t == 6 { let n1 = pcs_end(p, d).unwrap(); let n2 = pcs_end(p, n1).unwrap(); let m1 = name_end(out, d2).unwrap(); let m2 = name_end(out, m1).unwrap();
                         eq_ci(name_exp(out, d2), p.subrange(d, n1)) && eq_ci(name_exp(out, m1), p.subrange(n1, n2)) && out.subrange(m2, m2 + 20) == p.subrange(n2, n2 + 20) }
        else { be16(out, ho + 8) == l && out.subrange(d2, d2 + l) == p.subrange(d, d + l) })
}
// one record: out has it at so, the input at si
pub open spec fn rec_ci(out: Seq<u8>, so: int, p: Seq<u8>, si: int) -> bool {
    eq_ci(name_exp(out, so), p.subrange(si, pcs_end(p, si).unwrap())) && rd_ci(out, name_end(out, so).unwrap(), p, pcs_end(p, si).unwrap())
}
// a record of the output that the parser accepts keeps its decoded content when the output grows
pub proof fn lemma_rec_ci_ext(out: Seq<u8>, out2: Seq<u8>, so: int, p: Seq<u8>, si: int, sec: SecT, seen: bool)
    requires rr_spec(out, so, sec, seen).is_some(), out.len() <= out2.len(), forall|i: int| 0 <= i < out.len() ==> out2[i] == out[i], pf_rr(p, si)
    ensures rec_ci(out2, so, p, si) == rec_ci(out, so, p, si), rec_end(out2, so) == rec_end(out, so)
{
    lemma_pf_rec(p, si); lemma_rec_bounds(p, si);
    let ho = name_end(out, so).unwrap(); let t = be16(out, ho); let l2 = be16(out, ho + 8) as int; let d2 = ho + 10;
    let ne = pcs_end(p, si).unwrap(); let l = be16(p, ne + 8) as int;
    lemma_name_end_ext(out, out2, so);
    lemma_name_end_bounds(out, so);
    assert(out2.subrange(ho, ho + 8) =~= out.subrange(ho, ho + 8));
    assert(be16(out2, ho + 8) == be16(out, ho + 8));
    if out.subrange(ho, ho + 8) == p.subrange(ne, ne + 8) {
        assert(t == be16(p, ne)) by { assert(out.subrange(ho, ho + 8)[0] == p.subrange(ne, ne + 8)[0] && out.subrange(ho, ho + 8)[1] == p.subrange(ne, ne + 8)[1]); }
        if t == 2 || t == 5 || t == 12 { lemma_name_end_ext(out, out2, d2); }
        else if t == 15 { lemma_name_end_ext(out, out2, d2 + 2); assert(out2.subrange(d2, d2 + 2) =~= out.subrange(d2, d2 + 2)); }
        else if t == 6 { lemma_name_end_ext(out, out2, d2); let m1 = name_end(out, d2).unwrap(); lemma_name_end_ext(out, out2, m1); let m2 = name_end(out, m1).unwrap();
                         assert(out2.subrange(m2, m2 + 20) =~= out.subrange(m2, m2 + 20)); }
        else if l2 == l { assert(out2.subrange(d2, d2 + l) =~= out.subrange(d2, d2 + l)) by { lemma_rr_spec_rec(out, so, sec, seen); lemma_rec_bounds(out, so); } }
    }
}
// the n records of the output from so and the n pointer-free records of the input from si carry the same data, one to one and in order
pub open spec fn recs_ci(out: Seq<u8>, so: int, p: Seq<u8>, si: int, n: int) -> bool
    decreases n
{
    if n <= 0 { true } else { rec_ci(out, so, p, si) && recs_ci(out, rec_end(out, so), p, pf_end(p, si), n - 1) }
}
pub proof fn lemma_recs_ci_ext(out: Seq<u8>, out2: Seq<u8>, so: int, p: Seq<u8>, si: int, n: int, sec: SecT, opt: Option<int>)
    requires rrs(out, so, n, sec, opt).is_some(), out.len() <= out2.len(), forall|i: int| 0 <= i < out.len() ==> out2[i] == out[i], pf_rrs(p, si, n)
    ensures recs_ci(out2, so, p, si, n) == recs_ci(out, so, p, si, n)
    decreases n
{
    if n > 0 {
        lemma_rec_ci_ext(out, out2, so, p, si, sec, opt.is_some());
        let r = rr_spec(out, so, sec, opt.is_some()).unwrap();
        lemma_rr_spec_rec(out, so, sec, opt.is_some());
        lemma_recs_ci_ext(out, out2, r.0, p, pf_end(p, si), n - 1, sec, if r.1 { Some(so + 1) } else { opt });
    }
}
pub proof fn lemma_recs_ci_append(out: Seq<u8>, so: int, p: Seq<u8>, si: int, n: int, sec: SecT, opt: Option<int>)
    requires n >= 0, rrs(out, so, n, sec, opt) matches Some(r) && rec_ci(out, r.0, p, pf_rrs_end(p, si, n)), recs_ci(out, so, p, si, n)
    ensures recs_ci(out, so, p, si, n + 1)
    decreases n
{
    if n > 0 {
        let q = rr_spec(out, so, sec, opt.is_some()).unwrap();
        lemma_rr_spec_rec(out, so, sec, opt.is_some());
        lemma_recs_ci_append(out, q.0, p, pf_end(p, si), n - 1, sec, if q.1 { Some(so + 1) } else { opt });
    } else { reveal_with_fuel(recs_ci, 2); reveal_with_fuel(rrs, 2); reveal_with_fuel(pf_rrs_end, 2); }
}
// the question: name equal up to ASCII case, type and class byte for byte
pub open spec fn q_ci(out: Seq<u8>, qe2: int, p: Seq<u8>) -> bool {
    let qe = pcs_end(p, 12).unwrap();
    eq_ci(name_exp(out, 12), p.subrange(12, qe)) && out.subrange(qe2, qe2 + 4) == p.subrange(qe, qe + 4)
}
pub proof fn lemma_q_ci_ext(out: Seq<u8>, out2: Seq<u8>, qe2: int, p: Seq<u8>)
    requires q_ok(out, qe2), q_ci(out, qe2, p), out.len() <= out2.len(), forall|i: int| 0 <= i < out.len() ==> out2[i] == out[i]
    ensures q_ci(out2, qe2, p)
{ lemma_name_end_ext(out, out2, 12); lemma_name_end_bounds(out, 12); assert(out2.subrange(qe2, qe2 + 4) =~= out.subrange(qe2, qe2 + 4)); }
// C06: the compressed message carries the message of the pointer-free input: header byte for byte, the question and then every record, section by
// section and in order, with every name equal to the input's up to ASCII case and every other field and all other data (the option list of OPT
// included) byte for byte
pub open spec fn msg_ci(c: Seq<u8>, p: Seq<u8>) -> bool {
    c.len() >= 12 && c.subrange(0, 12) == p.subrange(0, 12) && (name_end(c, 12) matches Some(qe2) && q_ci(c, qe2, p))
    && recs_ci(c, sec_start(c, Section::Answer), p, sec_start(p, Section::Answer), be16(p, 6) as int)
    && recs_ci(c, sec_start(c, Section::NameServers), p, sec_start(p, Section::NameServers), be16(p, 8) as int)
    && recs_ci(c, sec_start(c, Section::Additional), p, sec_start(p, Section::Additional), be16(p, 10) as int)
}
pub proof fn lemma_msg_ci(out: Seq<u8>, p: Seq<u8>, qe2: int, o2: int, o3: int, opt4: Option<int>)
    requires wf_packet(p), pf_packet(p), out.len() >= 12, out.subrange(0, 12) == p.subrange(0, 12), q_ok(out, qe2), q_ci(out, qe2, p),
        rrs(out, qe2 + 4, be16(p, 6) as int, SecT::Answer, None) == Some((o2, None::<int>)),
        rrs(out, o2, be16(p, 8) as int, SecT::NameServers, None) == Some((o3, None::<int>)),
        rrs(out, o3, be16(p, 10) as int, SecT::Additional, None) == Some((out.len() as int, opt4)),
        recs_ci(out, qe2 + 4, p, sec_start(p, Section::Answer), be16(p, 6) as int),
        recs_ci(out, o2, p, sec_start(p, Section::NameServers), be16(p, 8) as int),
        recs_ci(out, o3, p, sec_start(p, Section::Additional), be16(p, 10) as int),
    ensures msg_ci(out, p)
{
    assert(p.len() >= 12);
    assert forall|i: int| 0 <= i < 12 implies out[i] == p[i] by { assert(out[i] == out.subrange(0, 12)[i]); assert(p[i] == p.subrange(0, 12)[i]); }
    assert(be16(out, 4) == be16(p, 4) && be16(out, 6) == be16(p, 6) && be16(out, 8) == be16(p, 8) && be16(out, 10) == be16(p, 10));
    lemma_rrs_recs(out, qe2 + 4, be16(p, 6) as int, SecT::Answer, None);
    lemma_rrs_recs(out, o2, be16(p, 8) as int, SecT::NameServers, None);
}
