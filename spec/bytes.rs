// ===== spec/bytes.rs: byte-level lemmas =====
pub proof fn lemma_be16_bytes(a: u8, b: u8)
    ensures hi8(((a as u16) << 8) | (b as u16)) == a, lo8(((a as u16) << 8) | (b as u16)) == b,
{
    assert((((a as u16) << 8) | (b as u16)) >> 8 == a as u16) by(bit_vector);
    assert((((a as u16) << 8) | (b as u16)) & 0xff == b as u16) by(bit_vector);
}
pub proof fn lemma_be16_compose(v: u16)
    ensures (((v >> 8) as u8 as u16) << 8) | ((v & 0xff) as u8 as u16) == v
{
    assert((((v >> 8) as u8 as u16) << 8) | ((v & 0xff) as u8 as u16) == v) by(bit_vector);
}
// writing v big-endian at o and reading it back
pub proof fn lemma_be16_update(p: Seq<u8>, o: int, v: u16)
    requires 0 <= o, o + 2 <= p.len()
    ensures be16(p.update(o, hi8(v)).update(o + 1, lo8(v)), o) == v
{
    lemma_be16_compose(v);
}
// header words not touched by a 2-byte update
pub proof fn lemma_be16_frame(p: Seq<u8>, o: int, a: u8, b: u8, i: int)
    requires 0 <= o, o + 2 <= p.len(), 0 <= i, i + 2 <= p.len(), i + 2 <= o || o + 2 <= i
    ensures be16(p.update(o, a).update(o + 1, b), i) == be16(p, i)
{ }
