// ===== spec/names.rs: in-place name skipping, text form =====

// end of the in-place encoding, following labels until the root label or the first pointer (no validation)
pub open spec fn skip_walk(s: Seq<u8>, i: int) -> Option<int>
    decreases s.len() - i
{
    if i < 0 || i >= s.len() { None }
    else { let b = s[i];
        if b == 0 { Some(i + 1) }
        else if b & 0xc0 == 0xc0 { if i + 2 <= s.len() { Some(i + 2) } else { None } }
        else if i + b + 1 > s.len() { None }
        else { skip_walk(s, i + b + 1) } }
}
// a valid name ends, in place, where skip_walk says
pub proof fn lemma_walk_skip(p: Seq<u8>, off: int, barrier: int, lowest: int, refs: int, nlen: int)
    requires walk(p, off, barrier, lowest, refs, nlen, None).is_some(), barrier <= p.len()
    ensures skip_walk(p, off) == walk(p, off, barrier, lowest, refs, nlen, None)
    decreases p.len() - off
{
    let b = p[off];
    if b & 0xc0 == 0xc0 {
        assert(b != 0) by(bit_vector) requires b & 0xc0 == 0xc0;
        let t = ptr_target(b, p[off + 1]);
        lemma_walk_bounds(p, t, lowest, t, refs - 1, nlen, Some(off + 2));
    } else if b == 0 { } else {
        lemma_walk_skip(p, off + b + 1, barrier, lowest, refs, nlen + b + 1);
    }
}
pub proof fn lemma_name_end_skip(p: Seq<u8>, off: int)
    requires name_end(p, off).is_some()
    ensures skip_walk(p, off) == name_end(p, off)
{ lemma_walk_skip(p, off, p.len() as int, off, 16, 0); }

// the same bytes seen through a sub-slice
pub proof fn lemma_skip_sub(p: Seq<u8>, a: int, i: int)
    requires 0 <= a <= i, skip_walk(p, i).is_some()
    ensures skip_walk(p.subrange(a, p.len() as int), i - a) == Some(skip_walk(p, i).unwrap() - a)
    decreases p.len() - i
{
    let s = p.subrange(a, p.len() as int);
    let b = p[i];
    assert(s[i - a] == b);
    if b == 0 { } else if b & 0xc0 == 0xc0 { } else { lemma_skip_sub(p, a, i + b + 1); }
}

// ---- text form: labels joined by '.', a '.' inside a label written \046
pub open spec fn esc(l: Seq<u8>) -> Seq<u8>
    decreases l.len()
{
    if l.len() == 0 { Seq::<u8>::empty() }
    else { esc(l.drop_last()) + (if l.last() == 46 { seq![92u8, 48u8, 52u8, 54u8] } else { seq![l.last()] }) }
}
pub proof fn lemma_esc_clean(l: Seq<u8>)
    requires forall|i: int| 0 <= i < l.len() ==> l[i] != 46
    ensures esc(l) == l
    decreases l.len()
{
    if l.len() > 0 { lemma_esc_clean(l.drop_last()); assert(l.drop_last() + seq![l.last()] =~= l); }
}
// text of the (possibly compressed) name, on the recursion of `walk`
pub open spec fn txt(p: Seq<u8>, off: int, barrier: int, lowest: int, refs: int, nlen: int, first: bool) -> Seq<u8>
    decreases refs, p.len() - off
{
    if !(0 <= lowest <= off && refs >= 0) { Seq::<u8>::empty() }
    else if off >= barrier || off >= p.len() { Seq::<u8>::empty() }
    else { let b = p[off];
        if b & 0xc0 == 0xc0 {
            if refs <= 0 || off + 2 > p.len() { Seq::<u8>::empty() }
            else { let t = ptr_target(b, p[off + 1]);
                if t >= lowest { Seq::<u8>::empty() }
                else if p[t] == 0 { Seq::<u8>::empty() }
                else { txt(p, t, lowest, t, refs - 1, nlen, first) } }
        } else if b > 63 { Seq::<u8>::empty() }
        else if off + b + 1 > p.len() { Seq::<u8>::empty() }
        else if nlen + b + 1 > 255 { Seq::<u8>::empty() }
        else if has_bad(p, off + 1, off + 1 + b) { Seq::<u8>::empty() }
        else if b == 0 { Seq::<u8>::empty() }
        else { (if first { Seq::<u8>::empty() } else { seq![46u8] }) + esc(p.subrange(off + 1, off + 1 + b)) + txt(p, off + b + 1, barrier, lowest, refs, nlen + b + 1, false) } }
}
pub open spec fn name_txt(p: Seq<u8>, off: int) -> Seq<u8> { txt(p, off, p.len() as int, off, 16, 0, true) }
pub open spec fn lower_seq(s: Seq<u8>) -> Seq<u8> { Seq::new(s.len(), |i: int| lower(s[i])) }

// text of a pointer-free wire name (any label bytes)
pub open spec fn wire_txt(w: Seq<u8>, i: int, first: bool) -> Seq<u8>
    decreases w.len() - i
{
    if i < 0 || i >= w.len() { Seq::<u8>::empty() }
    else { let b = w[i];
        if b == 0 || b > 63 || i + b + 1 > w.len() { Seq::<u8>::empty() }
        else { (if first { Seq::<u8>::empty() } else { seq![46u8] }) + esc(w.subrange(i + 1, i + 1 + b)) + wire_txt(w, i + b + 1, false) } }
}

pub proof fn lemma_skip_bounds(s: Seq<u8>, i: int)
    ensures skip_walk(s, i) matches Some(e) ==> i < e <= s.len()
    decreases s.len() - i
{
    if i < 0 || i >= s.len() {} else { let b = s[i]; if b == 0 {} else if b & 0xc0 == 0xc0 {} else if i + b + 1 > s.len() {} else { lemma_skip_bounds(s, i + b + 1); } }
}
// a complete pointer-free name is skipped in full
pub proof fn lemma_plain_skip(s: Seq<u8>, i: int, nlen: int)
    requires plain_walk(s, i, nlen).is_some()
    ensures skip_walk(s, i) == plain_walk(s, i, nlen)
    decreases s.len() - i
{
    let b = s[i];
    if b != 0 { lemma_plain_skip(s, i + b + 1, nlen + b + 1); }
}
