// ===== spec/pfbmap.rs: where the boundary map of decompression sends record k of a record section (C05 -> C08) =====
pub proof fn lemma_bmap_rec(p: Seq<u8>, si: int, k: int)
    requires wf_bytes(p), 1 <= si <= 3, 0 <= k < sec_count(p, sec_of_idx(si))
    ensures ({ let u = uncompress_spec(p); let s = sec_of_idx(si);
        pf_packet(u) && sec_n(u, si) == sec_count(p, s)
        && bmap(p, rec_start(p, sec_start(p, s), k)) == Some(pf_rrs_end(u, sec_st(u, si), k))
        && 0 <= pf_rrs_end(u, sec_st(u, si), k) <= u.len()
        && pf_is_opt(u, pf_rrs_end(u, sec_st(u, si), k)) == is_opt(p, rec_start(p, sec_start(p, s), k)) }),
{
    hide(pf_rr); hide(pf_packet); hide(walk); hide(exp); hide(rd_ok); hide(opts); hide(un_rr); hide(un_rd); hide(pcs_walk);
    let u = uncompress_spec(p);
    let sa = sec_start(p, Section::Answer); let ca = sec_count(p, Section::Answer);
    let sn = sec_start(p, Section::NameServers); let cn = sec_count(p, Section::NameServers);
    let sr = sec_start(p, Section::Additional); let cr = sec_count(p, Section::Additional);
    let h = p.subrange(0, 12); let q = un_q(p); let ra = un_rrs(p, sa, ca); let rn = un_rrs(p, sn, cn); let rr_ = un_rrs(p, sr, cr);
    lemma_wf_bytes_facts(p);
    lemma_un_pf_packet(p);
    assert(u == h + q + ra + rn + rr_);
    assert forall|i: int| 0 <= i < 12 implies u[i] == p[i] by { assert(h[i] == p[i]); }
    assert(be16(u, 4) == be16(p, 4) && be16(u, 6) == be16(p, 6) && be16(u, 8) == be16(p, 8) && be16(u, 10) == be16(p, 10));
    let b1: int = 12 + q.len() as int; let b2: int = b1 + ra.len(); let b3: int = b2 + rn.len(); let b4: int = b3 + rr_.len();
    assert forall|i: int| 0 <= i < ra.len() implies u[b1 + i] == ra[i] by { }
    lemma_un_rrs_pf(p, sa, ca, u, b1);
    assert forall|i: int| 0 <= i < rn.len() implies u[b2 + i] == rn[i] by { }
    lemma_un_rrs_pf(p, sn, cn, u, b2);
    assert forall|i: int| 0 <= i < rr_.len() implies u[b3 + i] == rr_[i] by { }
    lemma_un_rrs_pf(p, sr, cr, u, b3);
    assert(pf_q_end(u) == b1 && pf_e1(u) == b2 && pf_e2(u) == b3);
    lemma_sec_end_bounds(p, sa, ca); lemma_sec_end_bounds(p, sn, cn); lemma_sec_end_bounds(p, sr, cr);
    let s = sec_of_idx(si);
    let st = sec_start(p, s); let n = sec_count(p, s);
    let r = rec_start(p, st, k);
    lemma_rec_start_bounds(p, st, n, k);
    let m0: Option<int> = if be16(p, 4) == 1 && r == 12 { Some(12int) } else { None };
    if si == 1 {
        lemma_bm_k_in(p, sa, ca, k, b1, m0);
        lemma_bm_k_out(p, sn, cn, r, b2, bm_k(p, sa, ca, r, b1, m0));
        lemma_bm_k_out(p, sr, cr, r, b3, bm_k(p, sa, ca, r, b1, m0));
    } else if si == 2 {
        let m1 = bm_k(p, sa, ca, r, b1, m0);
        lemma_bm_k_in(p, sn, cn, k, b2, m1);
        lemma_bm_k_out(p, sr, cr, r, b3, bm_k(p, sn, cn, r, b2, m1));
    } else {
        let m1 = bm_k(p, sa, ca, r, b1, m0); let m2 = bm_k(p, sn, cn, r, b2, m1);
        lemma_bm_k_in(p, sr, cr, k, b3, m2);
    }
    // OPT-ness of the carried record
    let o = pf_rrs_end(u, sec_st(u, si), k);
    lemma_pf_rrs_split(u, sec_st(u, si), n, k);
    lemma_pf_rrs_bounds(u, sec_st(u, si), k);
    assert(pcs_end(u, o) == Some(o + name_exp(p, r).len()));
    lemma_opt_type(p, st, n, k, u, sec_st(u, si));
}
// the type word of record k of the output run is the type word of record k of the input run
pub proof fn lemma_opt_type(p: Seq<u8>, s: int, n: int, k: int, u: Seq<u8>, b: int)
    requires recs_all(p, s, n), 0 <= s <= p.len(), 0 <= k < n, 0 <= b, b + un_rrs(p, s, n).len() <= u.len(),
        forall|i: int| 0 <= i < un_rrs(p, s, n).len() ==> u[b + i] == un_rrs(p, s, n)[i],
    ensures pf_is_opt(u, b + un_rrs(p, s, k).len()) == is_opt(p, rec_start(p, s, k))
    decreases n
{
    hide(pf_rr); hide(walk); hide(exp); hide(rd_ok); hide(opts); hide(un_rr); hide(un_rd); hide(pcs_walk);
    let pre = un_rrs(p, s, n - 1); let o = rec_start(p, s, n - 1); let w = un_rr(p, o);
    lemma_recs_prefix(p, s, n, n - 1);
    lemma_rec_start_bounds(p, s, n, n - 1);
    assert(un_rrs(p, s, n) == pre + w);
    if k < n - 1 {
        assert forall|i: int| 0 <= i < pre.len() implies u[b + i] == pre[i] by { assert(un_rrs(p, s, n)[i] == pre[i]); }
        lemma_opt_type(p, s, n - 1, k, u, b);
    } else {
        let b2 = b + pre.len();
        assert forall|i: int| 0 <= i < w.len() implies u[b2 + i] == w[i] by { assert(un_rrs(p, s, n)[pre.len() + i] == w[i]); assert(u[b + (pre.len() + i)] == un_rrs(p, s, n)[pre.len() + i]); }
        lemma_un_rr_pf(p, o, u, b2);
    }
}
