//! Loop-free Kani harnesses on the REAL compiled dnssector crate (path dependency on /repo).
//! Each harness ranges over the whole input domain symbolically: a complete proof, not a bounded one.
#![allow(unused)]
#[cfg(kani)]
mod c12 {
    use dnssector::*;

    fn any_pp() -> (ParsedPacket, [u8; 12], Option<u16>) {
        let hdr: [u8; 12] = kani::any();
        let ext: Option<u16> = kani::any();
        let pp = ParsedPacket {
            packet: Some(hdr.to_vec()),
            offset_question: None, offset_answers: None, offset_nameservers: None, offset_additional: None,
            offset_edns: None, edns_count: 0, ext_rcode: None, edns_version: None, ext_flags: ext,
            maybe_compressed: false, max_payload: 512, cached: None,
        };
        (pp, hdr, ext)
    }
    fn be16(p: &[u8], i: usize) -> u16 { ((p[i] as u16) << 8) | p[i + 1] as u16 }
    fn frame(pp: &ParsedPacket, hdr: &[u8; 12], ext: Option<u16>, lo: usize, hi: usize) {
        let p = pp.packet.as_ref().unwrap();
        assert!(p.len() == 12);
        let mut i = 0;
        while i < 12 { if i < lo || i >= hi { assert!(p[i] == hdr[i]); } i += 1; }
        assert!(pp.ext_flags == ext);
    }

    #[kani::proof]
    #[kani::unwind(14)]
    fn c12_set_flags() {
        let (mut pp, hdr, ext) = any_pp();
        let f: u32 = kani::any();
        pp.set_flags(f);
        frame(&pp, &hdr, ext, 2, 4);
        let w0 = be16(&hdr, 2);
        let w = be16(pp.packet.as_ref().unwrap(), 2);
        assert!(w & 0x780f == w0 & 0x780f);            // opcode and rcode untouched
        assert!(w & 0x87f0 == (f as u16) & 0x87f0);    // QR AA TC RD RA Z AD CD from the low half; upper half ignored
        assert!(pp.flags() == ((ext.unwrap_or(0) as u32) << 16) | ((f & 0x87f0) as u32));
        assert!(pp.opcode() == ((w0 >> 11) & 0x0f) as u8);
        assert!(pp.rcode() == (w0 & 0x0f) as u8);
    }

    #[kani::proof]
    #[kani::unwind(14)]
    fn c12_set_rcode() {
        let (mut pp, hdr, ext) = any_pp();
        let c: u8 = kani::any();
        pp.set_rcode(c);
        frame(&pp, &hdr, ext, 3, 4);
        let p = pp.packet.as_ref().unwrap();
        assert!(p[3] & 0xf0 == hdr[3] & 0xf0);
        assert!(pp.rcode() == c & 0x0f);
    }

    #[kani::proof]
    #[kani::unwind(14)]
    fn c12_set_opcode() {
        let (mut pp, hdr, ext) = any_pp();
        let c: u8 = kani::any();
        pp.set_opcode(c);
        frame(&pp, &hdr, ext, 2, 3);
        let p = pp.packet.as_ref().unwrap();
        assert!(p[2] & 0x87 == hdr[2] & 0x87);
        assert!(pp.opcode() == c & 0x0f);
    }

    #[kani::proof]
    #[kani::unwind(14)]
    fn c12_set_response() {
        let (mut pp, hdr, ext) = any_pp();
        let b: bool = kani::any();
        pp.set_response(b);
        frame(&pp, &hdr, ext, 2, 3);
        let p = pp.packet.as_ref().unwrap();
        assert!(p[2] & 0x7f == hdr[2] & 0x7f);
        assert!(pp.is_response() == b);
        assert!(DNSSector::is_response(p) == b);
        let mut raw = hdr.to_vec();
        DNSSector::set_response(&mut raw, b);
        assert!(raw == *p);
    }

    #[kani::proof]
    #[kani::unwind(14)]
    fn c12_set_tid() {
        let (mut pp, hdr, ext) = any_pp();
        let t: u16 = kani::any();
        pp.set_tid(t);
        frame(&pp, &hdr, ext, 0, 2);
        assert!(pp.tid() == t);
    }

    // C04 (header part): every header getter equals the independent decode of the bytes
    #[kani::proof]
    #[kani::unwind(14)]
    fn c04_header_getters() {
        let (pp, hdr, ext) = any_pp();
        let w = be16(&hdr, 2);
        assert!(pp.tid() == be16(&hdr, 0));
        assert!(pp.flags() == ((ext.unwrap_or(0) as u32) << 16) | ((w & 0x87f0) as u32));
        assert!(pp.rcode() == (w & 0x0f) as u8);
        assert!(pp.opcode() == ((w >> 11) & 0x0f) as u8);
        assert!(pp.is_response() == (w & 0x8000 != 0));
        let dnssec = if w & 0x8000 == 0 { ext.unwrap_or(0) & 0x8000 != 0 } else { w & 0x20 != 0 };
        assert!(pp.dnssec() == dnssec);
        assert!(DNSSector::qdcount(&hdr) == be16(&hdr, 4));
        assert!(DNSSector::ancount(&hdr) == be16(&hdr, 6));
        assert!(DNSSector::nscount(&hdr) == be16(&hdr, 8));
        assert!(DNSSector::arcount(&hdr) == be16(&hdr, 10));
    }
}
