#!/bin/bash
# usage: tools/seedregress.sh [ids...]   -- re-applies every kept seeded change to /repo (one at a time, undone straight afterwards),
# runs the check of its property and records whether it is still reported.  Evidence files are restored afterwards.
cd /verif
mkdir -p /tmp/sp
IDS="$@"; [ -z "$IDS" ] && IDS=$(ls seeded)
OUT=/tmp/sp/regress.log; : > $OUT
for id in $IDS; do
  prop=$(echo $id | sed 's/[a-z]$//')
  git -C /repo apply /verif/seeded/$id/patch.diff || { echo "$id patch-does-not-apply" >> $OUT; continue; }
  t0=$(date +%s)
  ./check $prop > /tmp/sp/regress_$id.out 2>&1; rc=$?
  t1=$(date +%s)
  git -C /repo checkout -- .
  v=$(grep -c "^VIOLATION" /tmp/sp/regress_$id.out); w=$(grep "^VIOLATION" /tmp/sp/regress_$id.out | grep -vc "no-failing-input-found")
  echo "$id prop=$prop exit=$rc violations=$v with_input=$w secs=$((t1-t0))" >> $OUT
done
git checkout -- evidence 2>/dev/null
echo DONE >> $OUT
