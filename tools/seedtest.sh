#!/bin/bash
# usage: tools/seedtest.sh <ID> <worktree> [props to run...]      ID = C06 or C06b (second seed for C06); default property = ID without its suffix letter
# confirms a seeded change (tests still pass, demo fails with / passes without), stores it under /verif/seeded/, runs the checks on /repo with it applied
set -u
mkdir -p /tmp/sp
P=$1; WT=$2; shift 2; OTHERS="$@"
PROP=$(echo $P | sed 's/[a-z]$//')
OUT=/verif/seeded/$P
mkdir -p $OUT
cp $WT/seed_out/patch.diff $OUT/patch.diff
cp $WT/seed_out/meta.json $OUT/meta.agent.json 2>/dev/null
DEMO=$(cd $WT && git status --short tests | awk '{print $2}' | head -1)
[ -n "$DEMO" ] && cp $WT/$DEMO $OUT/
DEMONAME=$(basename "$DEMO" .rs)
cd $WT
git checkout -q -- src && git apply seed_out/patch.diff || { echo "patch does not apply in the worktree"; exit 2; }
echo "== existing suite with the change" ; cargo test --offline --no-fail-fast --test lib --test test_dnssector --test test_synth 2>&1 | grep -E "^test result" | tr '\n' ' '; echo
echo "== demo with the change (expect failure)"; timeout 300 cargo test --offline --test $DEMONAME 2>&1 | grep -E "^test result|panicked|timed out" | head -3; D1=${PIPESTATUS[0]}
git apply -R seed_out/patch.diff
echo "== demo without the change (expect pass)"; timeout 300 cargo test --offline --test $DEMONAME 2>&1 | grep -E "^test result" | head -3
git apply seed_out/patch.diff
cd /verif
git -C /repo apply $OUT/patch.diff || { echo "patch does not apply to /repo"; exit 2; }
RES=""
for c in $PROP $OTHERS; do
  ./check $c > /tmp/sp/seed_$c.out 2>&1; rc=$?
  echo "== check $c exit=$rc"; grep -E "^VIOLATION|^UNDECIDED|^KNOWN|^  obligation" /tmp/sp/seed_$c.out | cut -c1-300 | head -6
  RES="$RES $c:$rc"
done
git -C /repo checkout -- .
echo "RESULT $P:$RES"
# evidence files written while a seeded change was applied are not evidence about the unchanged tree
git -C /verif checkout -- evidence 2>/dev/null
