"""Thorough-tier guards (vacuity probes, seed stability) and extra scans."""
import os, re, sys, json, subprocess
HERE = os.path.dirname(os.path.abspath(__file__))
ROOT = os.path.dirname(HERE)
import runner, extract


def thorough_guards(prop, cfg, seed):
    info = {"seeds": {}, "undecided": []}
    # seed stability: re-verify every unit under two more solver seeds
    for s in (seed + 101, seed + 202):
        res = runner.run_units(cfg["units"], seed=s)
        info["seeds"][str(s)] = {u: {"status": r.status, "verified": r.verified, "errors": r.errors} for u, r in res.items()}
    return info


def c18_walk_count(prop, tier, seed, cfg):
    """(e) of spec/linear.rs: parse_rr is loop-free and calls a name walker at most 3 times on any path (syntactic count per match arm)."""
    from rustlex import SourceFile, strip_comments
    sf = SourceFile(os.path.join(extract.REPO, "src", "dns_sector.rs"), "dns_sector.rs")
    own, fn = sf.find_member("impl", "DNSSector", "parse_rr")
    body = strip_comments(sf.src[fn.body[0]:fn.body[1]])
    loops = len(re.findall(r"\b(loop|while|for)\b", body))
    # owner name walk (skip_name) + the maximum over the match arms
    arms = re.split(r"\n\s*(?:x if x ==|_ =>)", body)
    per_arm = [len(re.findall(r"check_compressed_name\s*\(|check_uncompressed_name\s*\(", a)) for a in arms[1:]] or [0]
    owner = len(re.findall(r"skip_name\s*\(", arms[0]))
    total = owner + max(per_arm)
    info = {"loops_in_parse_rr": loops, "owner_walks": owner, "max_rdata_walks_per_arm": max(per_arm), "walks_per_record": total}
    lines = []
    if loops != 0 or total > 3:
        path = os.path.join(ROOT, "replays", "C18-walk-count.json")
        os.makedirs(os.path.dirname(path), exist_ok=True)
        with open(path, "w") as f:
            json.dump({"property": "C18", "obligation": "U1/parse_rr/walks-per-record<=3", "observed": info,
                       "verifier_output": "syntactic count over /repo/src/dns_sector.rs parse_rr: the composition lemma assumes a loop-free parse_rr with at most 3 name walks per record"}, f, indent=1)
        lines.append("VIOLATION property=C18 replay=%s no-failing-input-found" % path)
    return (not lines), info, lines
