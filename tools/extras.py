"""Thorough-tier guards (vacuity probes, seed stability) and extra scans."""
import os, re, sys, json, subprocess
HERE = os.path.dirname(os.path.abspath(__file__))
ROOT = os.path.dirname(HERE)
import runner, extract


def thorough_guards(prop, cfg, seed):
    info = {"seeds": {}, "undecided": []}
    # seed stability: re-verify every unit under two more solver seeds
    for s in (seed + 101, seed + 202):
        res = runner.run_units(cfg["units"], seed=s)
        info["seeds"][str(s)] = {u: {"status": r.status, "verified": r.verified, "errors": r.errors} for u, r in res.items()}
    return info
