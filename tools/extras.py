"""Thorough-tier guards (vacuity probes, seed stability) and extra scans."""
import os, re, sys, json, subprocess
HERE = os.path.dirname(os.path.abspath(__file__))
ROOT = os.path.dirname(HERE)
import runner, extract


def thorough_guards(prop, cfg, seed):
    info = {"seeds": {}, "undecided": []}
    # seed stability: re-verify every unit under two more solver seeds
    for s in (seed + 101, seed + 202):
        res = runner.run_units(cfg["units"], seed=s)
        info["seeds"][str(s)] = {u: {"status": r.status, "verified": r.verified, "errors": r.errors} for u, r in res.items()}
        for u, r in res.items():
            if r.status != "ok":
                info["undecided"].append("UNDECIDED property=%s reason=unit %s is not stable under solver seed %d (%s)" % (prop, u, s, r.status))
    # sensitivity self-test: the seeded change kept for this property (seeded/<id>/patch.diff) is applied to a scratch COPY of the
    # repository sources (never to /repo) and the Verus units of the property are re-run on it: they must no longer verify
    info["seeded_selftest"] = seeded_selftest(prop, cfg)
    st = info["seeded_selftest"]
    if st.get("applied") and not st.get("detected"):
        info["undecided"].append("UNDECIDED property=%s reason=the seeded change seeded/%s is no longer detected by the Verus units (sensitivity lost)" % (prop, prop))
    return info


def seeded_selftest(prop, cfg):
    import shutil, subprocess, tempfile
    patch = os.path.join(ROOT, "seeded", prop, "patch.diff")
    if not os.path.exists(patch) or not cfg.get("units"):
        return {"applied": False, "reason": "no seeded change kept for this property"}
    meta = {}
    try:
        meta = json.load(open(os.path.join(ROOT, "seeded", prop, "meta.json")))
    except Exception:
        pass
    if "Verus" not in meta.get("caught_by", "Verus"):
        return {"applied": False, "reason": "this seeded change is detected by the differential replay, not by a Verus obligation (see seeded/%s/meta.json)" % prop}
    tmp = tempfile.mkdtemp(prefix="verif_selftest_")
    saved = extract.REPO
    try:
        shutil.copytree(os.path.join(saved, "src"), os.path.join(tmp, "src"))
        for f in ("Cargo.toml", "Cargo.lock"):
            if os.path.exists(os.path.join(saved, f)):
                shutil.copy(os.path.join(saved, f), os.path.join(tmp, f))
        p = subprocess.run(["patch", "-p1", "-s", "-d", tmp, "-i", patch], capture_output=True, text=True)
        if p.returncode != 0:
            return {"applied": False, "reason": "patch does not apply to the current tree: " + (p.stdout + p.stderr)[-300:]}
        extract.REPO = tmp
        res = runner.run_units(cfg["units"], multiple_errors=1, outdir=os.path.join(tmp, "build"))
        detected = any(r.status != "ok" for r in res.values())
        return {"applied": True, "detected": detected, "units": {u: {"status": r.status, "errors": r.errors} for u, r in res.items()}}
    finally:
        extract.REPO = saved
        shutil.rmtree(tmp, ignore_errors=True)


def c18_walk_count(prop, tier, seed, cfg):
    """(e) of spec/linear.rs: parse_rr is loop-free and calls a name walker at most 3 times on any path (syntactic count per match arm)."""
    from rustlex import SourceFile, strip_comments
    sf = SourceFile(os.path.join(extract.REPO, "src", "dns_sector.rs"), "dns_sector.rs")
    own, fn = sf.find_member("impl", "DNSSector", "parse_rr")
    body = strip_comments(sf.src[fn.body[0]:fn.body[1]])
    loops = len(re.findall(r"\b(loop|while|for)\b", body))
    # owner name walk (skip_name) + the maximum over the match arms
    arms = re.split(r"\n\s*(?:x if x ==|_ =>)", body)
    per_arm = [len(re.findall(r"check_compressed_name\s*\(|check_uncompressed_name\s*\(", a)) for a in arms[1:]] or [0]
    owner = len(re.findall(r"skip_name\s*\(", arms[0]))
    total = owner + max(per_arm)
    info = {"loops_in_parse_rr": loops, "owner_walks": owner, "max_rdata_walks_per_arm": max(per_arm), "walks_per_record": total}
    lines = []
    if loops != 0 or total > 3:
        path = os.path.join(ROOT, "replays", "C18-walk-count.json")
        os.makedirs(os.path.dirname(path), exist_ok=True)
        with open(path, "w") as f:
            json.dump({"property": "C18", "obligation": "U1/parse_rr/walks-per-record<=3", "observed": info,
                       "verifier_output": "syntactic count over /repo/src/dns_sector.rs parse_rr: the composition lemma assumes a loop-free parse_rr with at most 3 name walks per record"}, f, indent=1)
        lines.append("VIOLATION property=C18 replay=%s no-failing-input-found" % path)
    return (not lines), info, lines


C17_CONE = ["compress.rs", "renamer.rs", "parsed_packet.rs", "dns_sector.rs", "rr_iterator.rs", "response_iterator.rs",
            "question_iterator.rs", "edns_iterator.rs", "synth/gen.rs", "synth/parser.rs", "constants.rs", "errors.rs", "synth/mod.rs"]
C17_PATTERNS = [
    (r"\bstatic\s+mut\b", "static mut"),
    (r"\bthread_local!\s*", "thread_local!"),
    (r"\blazy_static!\s*", "lazy_static!"),
    (r"\b(OnceCell|OnceLock|LazyLock|LazyCell|Lazy)\b", "lazily initialised global"),
    (r"\bstatic\s+[A-Z_0-9]+\s*:\s*[^=;]*\b(Mutex|RwLock|RefCell|Cell|Atomic[A-Za-z0-9]*|UnsafeCell)\b", "static with interior mutability"),
    (r"\brand::|\brng\s*\(|\.random\s*\(|thread_rng|SystemTime|Instant::now|std::time|std::env|env::var|std::process::id", "ambient input (randomness / time / environment)"),
    (r"\bunsafe\b", "unsafe"),
]


def c17_scan(prop, tier, seed, cfg):
    """Purity scan of the cone of parse / uncompress / compress / rename / synthesis: no hidden state, no ambient inputs.
    The one permitted use of randomness is the transaction id drawn in ParsedPacket::empty()."""
    from rustlex import SourceFile, strip_comments
    hits, scanned = [], []
    for rel in C17_CONE:
        path = os.path.join(extract.REPO, "src", rel)
        if not os.path.exists(path):
            continue
        src = open(path).read()
        code = strip_comments(src)
        scanned.append(rel)
        # span of ParsedPacket::empty (the permitted randomness)
        allowed = None
        if rel == "parsed_packet.rs":
            try:
                sf = SourceFile(path, rel)
                own, fn = sf.find_member("impl", "ParsedPacket", "empty")
                allowed = (fn.start, fn.end)
            except Exception:
                allowed = None
        for rx, what in C17_PATTERNS:
            for m in re.finditer(rx, code):
                line = code.count("\n", 0, m.start()) + 1
                if what.startswith("ambient") and allowed and allowed[0] <= m.start() < allowed[1]:
                    continue
                if what.startswith("ambient") and re.match(r"\s*use\s", code[code.rfind("\n", 0, m.start()) + 1:m.start() + 1] or ""):
                    continue    # an import alone does nothing
                if rel == "parsed_packet.rs" and re.match(r"use rand::prelude::\*;", code[code.rfind("\n", 0, m.start()) + 1:].split("\n")[0].strip()):
                    continue
                hits.append({"file": rel, "line": line, "what": what, "text": code[m.start():m.start() + 60].split("\n")[0]})
    # a fresh suffix dictionary per call
    fresh = {}
    for rel, owner, fn_name in (("compress.rs", "Compress", "compress"), ("renamer.rs", "Renamer", "rename_with_raw_names")):
        try:
            sf = SourceFile(os.path.join(extract.REPO, "src", rel), rel)
            own, fn = sf.find_member("impl", owner, fn_name)
            body = strip_comments(sf.src[fn.body[0]:fn.body[1]])
            fresh["%s::%s" % (owner, fn_name)] = bool(re.search(r"let\s+mut\s+[a-z_]+\s*=\s*SuffixDict::new\s*\(\s*\)\s*;", body))
        except Exception as e:
            fresh["%s::%s" % (owner, fn_name)] = False
    info = {"files_scanned": scanned, "hits": hits, "fresh_dictionary_per_call": fresh}
    lines = []
    bad = [h for h in hits if h["what"] != "unsafe"] + [h for h in hits if h["what"] == "unsafe"]
    if bad or not all(fresh.values()):
        path = os.path.join(ROOT, "replays", "C17-scan.json")
        os.makedirs(os.path.dirname(path), exist_ok=True)
        with open(path, "w") as f:
            json.dump({"property": "C17", "obligation": "purity-scan", "observed": info,
                       "verifier_output": "hidden state or an ambient input inside the cone of parse/uncompress/compress/rename/synthesis, or a suffix dictionary that is not created per call"}, f, indent=1)
        lines.append("VIOLATION property=C17 replay=%s no-failing-input-found" % path)
    return (not lines), info, lines
