#!/bin/bash
# usage: tools/seedround.sh <ID>...   -- processes the seeded changes left by sub-agents in the scratch worktrees /tmp/wt_<ID> one after the
# other with tools/seedtest.sh and collects the outcome in /tmp/sp/round.log
cd /verif; mkdir -p /tmp/sp
: > /tmp/sp/round.log
for id in "$@"; do
  tools/seedtest.sh $id /tmp/wt_$id > /tmp/sp/seedtest_$id.out 2>&1
  echo "=== $id" >> /tmp/sp/round.log; grep -E "^== |^test result|^RESULT|VIOLATION|UNDECIDED|panicked" /tmp/sp/seedtest_$id.out | cut -c1-400 >> /tmp/sp/round.log
done
echo DONE >> /tmp/sp/round.log
