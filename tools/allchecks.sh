#!/bin/bash
# usage: tools/allchecks.sh [ids...]   -- runs the quick check of every registered property (or the given ones) ONE AFTER THE OTHER on the
# current tree and logs exit codes to /tmp/sp/allchecks.log.  Evidence committed to /verif must come from such a run on the unchanged tree:
# never commit while this, tools/seedtest.sh or tools/seedregress.sh is running.
cd /verif; mkdir -p /tmp/sp
IDS="$@"; [ -z "$IDS" ] && IDS="C01 C02 C03 C04 C05 C06 C07 C08 C09 C10 C11 C12 C13 C14 C17 C18"
: > /tmp/sp/allchecks.log
for p in $IDS; do
  s=$(date +%s); ./check $p > /tmp/sp/all_$p.out 2>&1; rc=$?; e=$(date +%s)
  echo "$p exit=$rc $((e-s)) s" >> /tmp/sp/allchecks.log
done
echo DONE >> /tmp/sp/allchecks.log
