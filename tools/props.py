"""Per-property configuration: which units decide it, which functions form its cone, paired Kani harnesses,
witness-search generator of the replay crate.  (DESIGN.md section 5.)"""

# A failure in function F of a unit counts for property P iff F's key matches one of P's cone regexes
# (None = every function of the unit), and -- when the failing clause carries a tag comment like `// [C12 C04]` --
# only if P is listed in the tag.

PROPS = {
    "C12": {
        "title": "Header setters touch only their own bits; getters return what was set",
        "units": ["U3"],
        "cone": [r"parsed_packet\.rs::ParsedPacket::(packet|packet_mut|tid|set_tid|flags|set_flags|is_response|set_response|rcode|set_rcode|opcode|set_opcode)$",
                 r"dns_sector\.rs::DNSSector::(is_response|set_response)$",
                 r"spec/clients_u3\.rs::"],
        "witness": ("c12", 20000),
        "kani": {"harnesses": ["c12_set_flags", "c12_set_rcode", "c12_set_opcode", "c12_set_response", "c12_set_tid"],
                 "quick": True,
                 # Verus obligations that a complete loop-free Kani harness on the real crate may arbitrate (DESIGN 3.5)
                 "arbitrate": {r"ParsedPacket::set_flags$": "c12_set_flags", r"ParsedPacket::set_rcode$": "c12_set_rcode",
                               r"ParsedPacket::set_opcode$": "c12_set_opcode", r"::set_response$": "c12_set_response",
                               r"ParsedPacket::set_tid$": "c12_set_tid",
                               r"ParsedPacket::(flags|rcode|opcode|is_response|tid)$": "c04_header_getters",
                               r"DNSSector::is_response$": "c12_set_response"}},
        "level": "proof",
        "design_ref": "DESIGN.md section 5 C12",
        "technique": "Verus contracts (bit_vector) on the extracted real setters/getters + complete loop-free Kani/CBMC harnesses on the compiled real crate",
    },
}

U1_ASSUME = ["DNSSector objects are created by DNSSector::new (inv(): offset <= len); pub fields are not written by callers",
             "private loaders (u8_load, be16_load, ..) are only called with small constant offsets (requires rr_offset < 1000, checked at every call site)"]

PROPS.update({
    "C01": {
        "title": "Parsing untrusted bytes is total: a result or an error, never a crash or hang",
        "units": ["U1"], "cone": None,
        "witness": ("c01", 20000),
        "level": "proof", "design_ref": "DESIGN.md section 5 C01",
        "assumptions": U1_ASSUME,
        "level_text": "every index, slice, subtraction, addition, unwrap and assert of the validator and of the public name/cursor primitives is a discharged Verus obligation; every loop has a decreases clause; parse ensures Ok(pp) ==> pp.packet == input. No precondition on buffers, offsets or increments.",
        "technique": "Verus safety obligations + decreases on the mechanically extracted validator (unit U1)",
    },
    "C02": {
        "title": "The parser accepts exactly the packets that are well-formed under its policy",
        "units": ["U1"], "cone": None,
        "witness": ("c02", 20000),
        "level": "proof", "design_ref": "DESIGN.md section 5 C02",
        "assumptions": U1_ASSUME,
        "level_text": "parse(p).is_ok() <==> wf_packet(p) with wf_packet a spec function written from the property text (spec/wire.rs, literals only); every helper on the path has an iff-contract, both directions in one proof",
        "technique": "Verus iff-contracts of the extracted validator against a recursive wire specification",
    },
    "C18": {
        "title": "Validation work is linear in the packet size",
        "units": ["U1"],
        "cone": [r"check_compressed_name", r"check_uncompressed_name$", r"DNSSector::parse_opt$", r"DNSSector::parse_rr$", r"DNSSector::parse$", r"spec/linear\.rs"],
        "witness": ("c18", 3000),
        "level": "proof", "design_ref": "DESIGN.md section 5 C18",
        "assumptions": U1_ASSUME + ["the ghost step counters are incremented once at every loop head of the walkers (spliced by the side-car, listed in the evidence); 'ghost counter == real iterations' is by construction of the splice",
                                     "parse_rr performs at most 3 name walks: counted syntactically, not proved"],
        "level_text": "ghost step counters with local bounds (<= 271 per name walk, >= 11 bytes per record, >= 4 per option) are loop invariants of the real code; the linear composition is a proved arithmetic lemma (spec/linear.rs)",
        "technique": "Verus ghost counters + loop invariants + decreases on the extracted validator; arithmetic composition lemma",
        "extra": ["c18_walk_count"],
    },
    "C03": {
        "title": "Every accepted packet reads back completely and faithfully via the iterators",
        "units": ["U2", "U1"],
        "cone": {"U1": [r"DNSSector::(parse|parse_rr|parse_opt|parse_question|new)$"], "U2": None},
        "witness": ("c03", 10000),
        "level": "proof", "design_ref": "DESIGN.md section 5 C03",
        "assumptions": U1_ASSUME + ["std::net::IpAddr/Ipv4Addr/Ipv6Addr are opaque: from([u8;N]) and octets() are assumed inverse (prelude/net.rs)",
                                     "the trait method `next` of the three iterators is verified as an inherent method with the same body (rewrite R21)"],
        "level_text": "under ParsedPacket::wf() (which parse establishes for every accepted packet: lemma_parse_wf over parse's verified postcondition) every iterator step keeps the invariant 'cursor designates record k in wire order', next skips exactly the OPT record wherever it sits, each accessor equals the spec decode, and no reader indexes outside the packet or has &mut access to the bytes",
        "technique": "Verus representation invariant of the iterators + accessor postconditions against spec decoders, on the extracted readers (unit U2); verified client walks",
    },
    "C04": {
        "title": "Header, question and EDNS summaries equal what the bytes say",
        "units": ["U1", "U2", "U3"],
        "cone": {"U1": [r"DNSSector::(parse|parse_opt|parse_rr|new|opt_rr_|be16_load|u8_load)"],
                 "U2": [r"ParsedPacket::(question_raw0|question_raw|question|qtype_qclass|packet)$", r"Compress::(copy_uncompressed_name|raw_name_to_str|raw_name_len)$", r"spec/(reader|locality|names)\.rs"],
                 "U3": [r"ParsedPacket::(packet|tid|flags|dnssec|is_response|rcode|opcode|max_payload)$", r"DNSSector::(is_response|qdcount|ancount|nscount|arcount)$"]},
        "witness": ("c04", 10000),
        "kani": {"harnesses": ["c04_header_getters"], "quick": True,
                 "arbitrate": {r"ParsedPacket::(flags|rcode|opcode|is_response|tid|dnssec)$": "c04_header_getters"}},
        "level": "proof", "design_ref": "DESIGN.md section 5 C04",
        "assumptions": U1_ASSUME,
        "level_text": "parse's postcondition pins every EDNS summary field to the spec decode of the OPT record (or None/0/512); header getters are bit-exact (Verus bit_vector + complete Kani harness on the real crate); the question getters return the spec expansion / its text / type / class and keep the cache coherent",
        "technique": "Verus postconditions on parse/parse_opt + bit_vector contracts of the getters + loop-free Kani harness",
    },
})

PROPS.update({
    "C14": {
        "title": "Host names convert between text and wire form without loss",
        "units": ["U4", "U2"],
        "cone": {"U4": None, "U2": [r"Compress::raw_name_to_str$", r"TypedIterable::name$", r"spec/(names|locality)\.rs"]},
        "witness": ("c14", 20000),
        "level": "proof", "design_ref": "DESIGN.md section 5 C14",
        "assumptions": ["bytes above 128 are rejected, 128 itself is accepted (as the code does): the property statement is silent on non-ASCII bytes",
                        "<[u8]>::make_ascii_lowercase maps A-Z to a-z and nothing else (assumed specification)"],
        "level_text": "copy_raw_name_from_str is proved equal to the spec function name_to_wire (labels = dot-separated labels, default zone unless a final dot) with acceptance iff wire <= 253; the C14 clauses (well-formed pointer-free result, LDH acceptance, the three rejections, text round trip) are proved lemmas over that spec function; reading back goes through raw_name_to_str / name() of unit U2, proved equal to the lower-cased text of the expansion",
        "technique": "Verus functional contract against a recursive spec function + spec-level lemmas for each clause of the statement",
    },
    "C05": {
        "title": "Decompression keeps the message; output is pointer-free, valid and stable",
        "units": ["U6", "U1"],
        "cone": {"U1": [r"DNSSector::(parse|parse_rr|parse_opt|parse_question|new)$"], "U6": [r"Compress::", r"spec/(uncompress|reader|locality|names|iter|pfpacket|pfedit)\.rs", r"ResponseIterator::", r"QuestionIterator::", r"TypedIterable::(copy_raw_name|rr_type)$", r"RdataIterable::rr_rdlen$", r"ParsedPacket::into_iter_"]},
        "witness": ("c05", 3000),
        "level": "proof", "design_ref": "DESIGN.md section 5 C05",
        "assumptions": U1_ASSUME + ["units with iterator client loops are verified with --no-lifetime (Verus's lifetime pass over ghost code is off; exec code is borrow-checked by rustc in the real crate)"],
        "level_text": "uncompress / uncompress_with_previous_offset are proved to succeed exactly on accepted packets and to return uncompress_spec(p) (record by record: owner and rdata names expanded, RDLENGTH rewritten, everything else including OPT verbatim) together with the position of the carried record boundary (bmap); theorem_c05 and the lemmas of spec/pfedit.rs prove for that spec function: the output is accepted, pointer-free (pf_packet), has the identical header, is a fixed point of decompression, and record k of a section is carried to record k of the output",
        "technique": "Verus functional contract of the extracted decompressor against a recursive spec function, section loops verified through the iterator contracts",
    },
    "C06": {
        "title": "Compression keeps the message, stays valid and never grows the packet",
        "units": ["U7", "U1"],
        "cone": {"U1": [r"DNSSector::(parse|parse_rr|parse_opt|parse_question|new)$"],
                 "U7": [r"Compress::(compress|compress_rdata|copy_compressed_name|copy_compressed_name_with_base_offset|indirections|raw_name_len|raw_name_len_after_decompression)$", r"SuffixDict::", r"Default for Suffix", r"spec/(dict|ptr|cacc|crt|clients_u7|uncompress|pfedit|rename|locality|names|pfpacket|reader|iter)\\.rs", r"Compress::(uncompress|uncompress_with_previous_offset|uncompress_rdata|copy_uncompressed_name)$", r"ResponseIterator::", r"QuestionIterator::", r"ParsedPacket::into_iter_"]},
        "witness": ("c06", 12000),
        "level": "proof", "design_ref": "DESIGN.md section 5 C06",
        "assumptions": U1_ASSUME + ["#[derive(Default)] on SuffixDict yields count == 0 and index == 0 (assumed specification of the derived impl)",
                                     "units with iterator client loops are verified with --no-lifetime"],
        "level_text": "(F1) representation invariant of the suffix dictionary, (F2) insert against the abstract view (hit: some live entry equals the suffix up to ASCII case, nothing changes; miss: exactly slot `index` is replaced, every other slot untouched), (F3) the offset remembered for a suffix is its position in the OUTPUT, (F4) what the name emitter appends is whole labels followed by nothing or one pointer below 0x4000 that stands for at least 3 bytes, (F5) a compressed name/record/packet is never longer than the original, (F6) every record of every section is re-emitted, OPT included, (F7) the RDLENGTH written back equals the data bytes emitted, (F8) 'every pointer it emits designates, in the output, the suffix it stands for': the invariant dict_ok (every live dictionary entry designates, in the output, a valid name equal to its suffix up to ASCII case) holds from SuffixDict::new() to the end of compress(): the name emitter keeps it (pending-entry invariant of its loop; a hit can only be an entry that was faithful at entry), Compress::indirections is proved to return exactly the number of pointers the parser follows, appends keep it (walk transport lemma), and so does the RDLENGTH fix-up of compress_rdata (no name designated by the dictionary reads those two bytes: window lemmas of spec/ptr.rs); consequently every name compress() writes -- question, owner names, NS/CNAME/PTR/MX targets, both SOA names -- is asserted, at the place it is emitted, to be valid under the parser's name rule (at most 16 pointers, strictly backward, at most 255 bytes) and to decode in the output to the input name up to ASCII case; (F9) 'compression succeeds and returns an accepted packet': compress(p).is_ok() <==> wf_packet(p), and r matches Ok(c) ==> wf_packet(c) -- every record written is proved to be a record the parser accepts (compress_rdata: out_rdata per record type, incl. the verbatim option list of OPT and the pointer-free name of DNAME; lemma_out_record), the sections are assembled record by record (lemma_rrs_append, stability under growth: lemma_rr_spec_ext / lemma_rrs_ext), OPT at most once with a one-byte root owner, question class and header policy from the copied header (lemma_accept); the header is copied; (F10) 'whose header, record sequence (including any OPT record and its options) and record contents equal the input's, names being equal up to ASCII case': r matches Ok(c) ==> msg_ci(c, p) (spec/cacc.rs) -- header bytes equal; question name equal up to case, type and class byte for byte; then, section by section at the sections' starts as the reader computes them (sec_start of the output against sec_start of the input) and record by record in order (recs_ci), owner name equal up to case, type/class/TTL byte for byte, and the data: the target name of NS/CNAME/PTR, preference and exchange of MX, both names and the twenty fixed bytes of SOA, and for every other type (OPT and its option list, A, AAAA, DNAME, opaque) RDLENGTH and data byte for byte (compress_rdata: rd_ci per arm; stability of already written records under growth: lemma_rec_ci_ext / lemma_recs_ci_ext; assembly lemma_recs_ci_append / lemma_msg_ci). (F11) 'and the question name byte-identical': a name that meets an empty dictionary is written out in full (the name emitter cannot hit one of its own, longer, suffixes: loop invariant on the lengths of the entries), so compress() copies header and question byte for byte: c[0..q_end(p)) == p[0..q_end(p)); (F12) 'decompressing the result gives back the input up to name case': theorem_c06_roundtrip (spec/crt.rs) -- for accepted c carrying the message of the accepted pointer-free p, uncompress_spec(c) is accepted, pointer-free, exactly as long as p and carries p's message (both being pointer-free: equal bytes up to the case of letters inside names); record level lemma_un_rd_ci / lemma_un_rec_ci per record type, runs lemma_un_recs_ci, sections lemma_c06_section -- and the verified client client_compress_roundtrip (spec/clients_u7.rs, not repo code) composes the two REAL functions by their contracts: Compress::uncompress(Compress::compress(p)) succeeds and returns exactly that. Every clause of the statement is now a proved postcondition; the differential replay (compress, re-parse, compare, decompress) remains as the witness search for failing obligations",
        "technique": "Verus data-structure invariant + view-based postconditions for the dictionary; frame/length/count contracts for the emitter and the section loops; message-preservation relation msg_ci and accepted-output as postconditions of compress(); round-trip theorem over the contracts of compress and uncompress (verified client); differential replay only as witness search",
    },
    "C07": {
        "title": "Renaming rewrites exactly the matching names and nothing else",
        "units": ["U8"],
        "cone": [r"Renamer::", r"ParsedPacket::(rename_with_raw_names|into_packet)$", r"spec/(rename|racc|dict|ptr|cacc|locality|names)\\.rs", r"Compress::(copy_compressed_name|copy_compressed_name_with_base_offset|copy_uncompressed_name|indirections|raw_name_len)$", r"SuffixDict::", r"ResponseIterator::", r"QuestionIterator::", r"ParsedPacket::(into_iter_|copy_header)"],
        "witness": ("c07", 12000),
        "level": "proof", "design_ref": "DESIGN.md section 5 C07",
        "assumptions": ["source and target are well-formed pointer-free names under the parser's character policy (is_cname), both non-root: the property's quantifier",
                        "on an Err exit taken while an iterator is still alive, 'the packet object is unchanged' is not stated (Verus does not resolve the prophecy of the live iterator at a `?` exit); it is stated for Ok exits",
                        "units with iterator client loops are verified with --no-lifetime"],
        "level_text": "replace_raw is proved EQUAL to replace_spec (label-aligned, case-insensitive exact/suffix match; result = kept labels ++ target; TooLong exactly when the result would exceed 255) for all well-formed names; copy_with_replaced_name fails exactly when replace_spec is TooLong and otherwise appends the compressed form (whole labels + at most one pointer) of the rewritten -- or, without a match, the original -- expanded name, which is again a clean name; F8 for the renamer (see C06): the invariant dict_ok holds from SuffixDict::new() to the end of Renamer::rename_with_raw_names, across every section walk and every RDLENGTH fix-up (window lemmas), so every name the renamer writes -- question, owner names, NS/CNAME/PTR/MX targets, both SOA names -- is valid under the parser's name rule and decodes, in the output, to renamed_name(expanded input name) == the rewritten name or, without a match, the original, up to ASCII case; every name-bearing record type writes RDLENGTH == bytes appended after the 10-byte header (one obligation per arm: NS/CNAME/PTR, MX, SOA); the OPT record is copied by the generic arm in place; the section walks only read the packet object; header copied. F9 for the renamer, 'renaming returns an accepted packet': r matches Ok(v) && wf_packet(input) ==> wf_packet(v) -- every record written is proved to be one the parser accepts in its section (rename_response_section: out_rdata per arm -- one valid name ending the record for NS/CNAME/PTR, preference + name for MX, two names + twenty bytes for SOA, verbatim data for the rest incl. the option list of OPT and the pointer-free name of DNAME; the OPT owner is the root name, which no non-root source matches, so it is written as its single byte), sections assembled record by record (rrs of the output per section, stability under growth), question = valid name + the input's four fixed bytes (q_written), policy clauses from the copied header (lemma_accept). F10 for the renamer, 'every name that equals the source (or ends with it on a label boundary) has that part replaced by the target, while every other name, the header, the counts, record order, types, classes, TTLs, opaque data and the OPT record are unchanged up to name case': r matches Ok(v) && wf_packet(input) ==> msg_ren(v, input, target, source, suffix) (spec/racc.rs) -- header byte for byte; question name == renamed_name(expanded input name) up to case, type/class byte for byte; then section by section (at the sections' starts as the reader computes them in both packets) and record by record in order (recs_ren): owner name, the target of NS/CNAME/PTR, the exchange of MX and both SOA names each equal, up to case, to renamed_name of the input's expanded name -- renamed_name being replace_spec's rewritten name on a match and the name itself otherwise -- and type/class/TTL, MX preference, the twenty SOA bytes, and for every other type (OPT and its options included) RDLENGTH and data byte for byte. 'renaming a name to itself leaves the message unchanged': lemma_rename_identity -- with target == source renamed_name(n) equals n up to ASCII case for every name of at most 255 bytes and the TooLong case cannot arise, so every name clause of msg_ren reads 'equal to the input's expanded name up to case' (name-level lemma; the message-level restatement is msg_ren itself). F11, the packet-level wrapper ParsedPacket::rename_with_raw_names (observe_at): on success the packet object satisfies its invariant again for the renamed bytes (final(self).wf()), those bytes are accepted and carry the renamed message (msg_ren), the object is marked possibly-compressed with the question cache dropped, and the wrapper's four assert_eq! on the EDNS summary are discharged as proof obligations (lemma_ren_opt_at / lemma_ren_edns: corresponding runs have their OPT record at the same index with the same fixed fields and option list), and the re-parse cannot fail. F12 'when a rewritten name would exceed 255 bytes the call fails instead of producing a packet' and failure atomicity (C10): copy_with_replaced_name fails exactly on TooLong; the renamer and all its section walks leave the packet object untouched whether they succeed or fail (*final == *old unconditionally: the walks only read), and the wrapper returns Err only from the renamer (the re-parse of an accepted output cannot fail), so r.is_err() ==> *final(self) == *old(self)",
        "technique": "Verus functional contract of replace_raw against a spec function + per-record obligations on the extracted renamer; renamed-message relation msg_ren and accepted-output as postconditions of the renamer and of ParsedPacket::rename_with_raw_names; failure leaves the object untouched; differential replay only as witness search",
    },
    "C13": {
        "title": "Record text synthesises to the right wire record; bad text is an error",
        "units": ["U5"],
        "cone": None,
        "witness": ("c13", 20000),
        "level": "proof", "design_ref": "DESIGN.md section 5 C13",
        "assumptions": ["the text grammar (synth/parser.rs, chomp parse! macros over an external Input trait) is outside the verifier's reach: which strings are accepted and 'no string panics' are NOT decided by contracts; they are exercised only by the auxiliary differential replay of RR::from_string against a reference written from the grammar",
                        "two live Vec allocations fit in the address space together (axiom_two_vecs, used for the capacity hint of SOA::build)"],
        "level_text": "every typed builder (RR::new, new_question, A, AAAA, NS, CNAME, PTR, TXT, MX, SOA, DS) is proved to return exactly rr_wire(fields) -- owner name, type, class, TTL, RDLENGTH, RDATA per RFC 1035 -- and to fail exactly when a name does not encode or the data is too long; proof level covers the builders only. The TEXT front end (synth/parser.rs, chomp parser combinators behind macros) is outside the verifier's reach: no contract is placed on it, and the clauses 'bad text yields an error', 'whitespace / case-insensitive keywords / decimal escapes' and 'no string makes synthesis panic' are decided only by the differential replay against a hand-written reference grammar (replay/src/names.rs: ref_text, ref_txt) that decides the nine record types, the TTL / class / type fields, TXT strings with escapes, address and numeric fields, and ABSTAINS on host names its own label grammar is unsure about and on the embedded-IPv4 notation of IPv6 addresses. Seeded changes show what that means: of twenty-two changes made to this front end in six rounds, fourteen passed with exit 0 until the reference or the generator was extended (two of five in the fifth round; three of four in the sixth, whose authors were asked for changes a differential tester is least likely to try); after the extensions all twenty-two are reported and 48000 generated texts raise nothing on the unchanged tree. The reference now decides: the host-name fields (label grammar of the text parser), TTL / class / type keyword (incl. a keyword glued to its data), vertical whitespace (an error except inside SOA), A / AAAA / MX / SOA / DS fields with their ranges and shapes, TXT strings",
        "technique": "Verus byte-exact postconditions on the extracted builders (unit U5); grammar clauses: differential replay only (stated)",
    },
})

PROPS.update({
    "C17": {
        "title": "Results depend only on the arguments, never on earlier or concurrent calls",
        "units": [],
        "cone": None,
        "witness": None,
        "level": "other", "design_ref": "DESIGN.md section 5 C17",
        "extra": ["c17_scan"],
        "explanation": "(1) every function of units U1-U8 is verified as a function of its arguments: a Verus exec function can observe only its parameters, and for parse (C02/C04), uncompress (C05), the builders (C13) and name conversion (C14) the result is proved EQUAL to a spec function of the input bytes, which is purity outright; (2) mechanical scan, every run, of the source of the cone of parse/uncompress/compress/rename/synthesis for static mut, thread_local!, lazy/once cells, statics with interior mutability, rand/time/env and unsafe: must be empty except the transaction id drawn in ParsedPacket::empty(); (3) compress() and rename_with_raw_names() create their suffix dictionary with SuffixDict::new() as a local (syntactic check; SuffixDict::new() is proved to return an empty dictionary in unit U7). The concurrent half follows from the absence of shared mutable state and Rust's aliasing rules; it is argued, not proved.",
        "assumptions": ["concurrency: argued from absence of shared state + Rust's aliasing rules, not proved", "the scan is syntactic (regular expressions over comment-stripped source)"],
        "level_text": "corollary of the functional contracts of the other units plus a mechanical scan for hidden state / ambient inputs; not a proof of the concurrent half",
        "technique": "functional (result == spec function of the input) Verus contracts + syntactic purity scan of the cone",
    },
})

# ---- mutating operations (unit U9)
_U9_MUT = [r"ParsedPacket::(insert_rr|insertion_offset|rrcount_inc|rrcount_dec|recompute|into_packet|packet_mut|packet)$",
           r"DNSSector::set_(qd|an|ns|ar)count$",
           r"trait TypedIterable::(resize_rr|set_raw_name|delete|current_section)$",
           r"trait DNSIterable::(uncompress|set_offset|set_offset_next|invalidate|recompute_rr|recompute_sections|raw_mut|parsed_packet_mut|name_slice|rdata_slice_mut)$",
           r"trait RdataIterable::(set_rr_ttl|set_rr_ip)$",
           r"<DNSIterable for (Response|Question)Iterator>::(set_offset|set_offset_next|invalidate|recompute_rr|recompute_sections|raw_mut|parsed_packet_mut)$",
           r"RRIterator::recompute$", r"Compress::raw_name_len$",
           r"spec/(mutate|pfmut|pfmut_ops|pfmut_q|pfmut_f|walk|iter_mut|pfbmap|pfedns|clients_u9|pfpacket|pfedit|pfedit_names|locality|uncompress)\.rs"]
_U9_ASSUME = ["DNSIterable::rdata_slice_mut (a two-line `&mut packet[name_end..]` accessor) is taken on trust with its obvious contract: Verus keeps no length facts for a mutable sub-slice",
              "slice_copy_into / be_write_* shims stand for `D[a..b].copy_from_slice(S)` / BigEndian::write_* (rewrite table R10, R26) with the std semantics as their contract",
              "Compress::uncompress / uncompress_with_previous_offset / check_compressed_name / DNSSector::parse enter unit U9 by their contracts, which are verified in units U6 / U1",
              "the resizing mutators are under contract for packets of at most 65535 bytes whose decompressed form is also at most 65535 bytes (precondition; the casts through isize in resize_rr are proved free of wrap-around under it)",
              "composition (a cursor obtained from a walk satisfies the trait-level preconditions; object and cursor invariants hold again afterwards) is proved for cursors of the three record sections (ResponseIterator: rename, delete, insert) and for renaming through the question cursor (QuestionIterator) by the verified clients of spec/clients_u9.rs; for delete / insert on the question and for the EDNS option cursor only the trait-level contracts are proved",
              "units with iterator client loops are verified with --no-lifetime"]
PROPS.update({
    "C08": {
        "title": "A mutated packet object always matches a fresh parse of its own bytes",
        "units": ["U9", "U8"], "cone": {"U9": _U9_MUT, "U8": [r"ParsedPacket::rename_with_raw_names$", r"Renamer::rename_with_raw_names$", r"spec/racc\\.rs"]},
        "witness": ("c08", 6000),
        "level": "proof", "design_ref": "DESIGN.md section 5 C08",
        "assumptions": _U9_ASSUME,
        "level_text": "every mutator (insert_rr, set_raw_name, delete, resize_rr, DNSIterable::uncompress, set_rr_ttl, set_rr_ip, rrcount_inc/dec, recompute) is proved to leave the object in an EXACTLY specified state (spec/mutate.rs: inserted, named, deleted, resized, after_unc) and the cursor on the specified record. For the three record sections the specified state is proved to satisfy the object invariant again: lemma_edit_wf (spec/pfmut.rs) shows that replacing / removing / adding one record of a pointer-free packet at a record boundary yields a pointer-free packet whose decode equals every offset, the EDNS summary and the cache of the specified object (fin.wf() && pf_packet), for insert (lemma_inserted_wf), delete (lemma_deleted_wf) and rename (lemma_named_wf); theorem_c05 + lemma_bmap_rec + lemma_unc_keeps_edns carry this through the in-place decompression of a compressed packet; lemma_hdr_wf / lemma_field_wf (spec/pfmut_f.rs) do the same for the in-place writes of the header, TTL and address setters on a pointer-free packet; the verified clients client_set_name / client_set_qname / client_delete / client_insert / client_set_ttl / client_set_ip / client_set_header / client_walk_delete compose the real methods with these lemmas end to end: `mut_ready(cursor)` in, `cursor.wf() && pf_packet && !maybe_compressed` out ('An iterator that changed a record's name still designates that record'). NOT proved by contracts: acceptance by the parser where it depends on the policy clauses (open known finding), deleting / inserting the question and edits of the OPT record (open known findings), rename_with_raw_names (C07). The differential replay parses afresh after every step of random operation sequences",
        "technique": "Verus exact-state postconditions on the extracted mutators (trait default methods verified once against abstract cursor specs) + edit lemmas re-establishing the object invariant + verified client compositions; policy clauses by differential replay (stated)",
    },
    "C09": {
        "title": "Each mutation has exactly its stated effect; the rest is untouched",
        "units": ["U9"], "cone": _U9_MUT,
        "witness": ("c09", 6000),
        "level": "proof", "design_ref": "DESIGN.md section 5 C09",
        "assumptions": _U9_ASSUME + ["'the decoded message' is read off the byte-level postconditions: a splice of the decompressed packet at a record boundary changes exactly that record (uncompress_spec is proved message-preserving in C05); the decode function itself is not re-applied to the result in the proof"],
        "level_text": "byte-exact frame postconditions: set_raw_name == splice(decompressed bytes, owner-name range, new name); delete == the record's byte range cut out, only its section's count lowered; insert_rr == the record spliced in at the end of the chosen section (start of the next non-empty section or end of packet), only that count raised; set_rr_ttl / set_rr_ip == exactly the 4 / 4 / 16 bytes at fixed offsets after the owner name; resize_rr == tail moved by the difference; every untargeted field of the object equal. Lifted to records for the three record sections (spec/walk.rs, `others_kept`, proved through the verified clients): after rename / delete / insert every record of every other section keeps its bytes and its index, the records of the edited section keep their bytes and their order, the renamed record is the new owner name followed by its old type / class / TTL / RDLENGTH / RDATA, the inserted record is the given record at the end of its section -- on the pointer-free form of the packet, where byte equality of a record is equality of the decoded record (C05 links it to the compressed original)",
        "technique": "Verus byte-exact frame postconditions (Seq splice equalities) on the extracted mutators + record-level preservation lemmas composed in verified clients",
    },
    "C10": {
        "title": "A failed operation changes nothing; the size limit cannot be bypassed",
        "units": ["U9", "U8"], "cone": {"U9": _U9_MUT, "U8": [r"ParsedPacket::rename_with_raw_names$", r"Renamer::rename_with_raw_names$", r"spec/racc\\.rs"]},
        "witness": ("c10", 6000),
        "level": "proof", "design_ref": "DESIGN.md section 5 C10",
        "assumptions": _U9_ASSUME + ["'malformed record text' (RR::from_string) and 'a rename that overflows a name' are covered by C13 / C07; insert_rr_from_string is the composition and is not under contract itself"],
        "level_text": "for every mutator each Err exit is proved to leave the object equal to its entry state, or -- when the failure comes after the in-place decompression -- equal to the decompressed entry state (same message, after_unc); rrcount_inc refuses a second question and the 65536th record before any byte moves; set_raw_name validates the name before any byte moves; a tombstone cursor is refused first; insert_rr Ok ==> resulting length <= 8192 whatever the entry length (explicit postcondition), and the subtraction in the size check cannot underflow",
        "technique": "Verus postconditions on every error exit of the extracted mutators + explicit size-cap postcondition",
    },
    "C11": {
        "title": "Deleting records while iterating is safe, exact and terminates",
        "units": ["U9"],
        "cone": [r"trait TypedIterable::(delete|resize_rr|current_section)$", r"trait DNSIterable::(set_offset|set_offset_next|invalidate|is_tombstone|recompute_rr|recompute_sections|raw_mut|parsed_packet_mut)$",
                 r"ResponseIterator::(next|next_including_opt|maybe_skip_opt_section)$", r"QuestionIterator::next$", r"ParsedPacket::(rrcount_dec|into_iter_)", r"RRIterator::", r"spec/(mutate|pfmut|pfmut_ops|pfmut_q|pfmut_f|walk|iter_mut|pfbmap|pfedns|clients_u9|iter|reader)\.rs"],
        "witness": ("c11", 6000),
        "level": "proof", "design_ref": "DESIGN.md section 5 C11",
        "assumptions": _U9_ASSUME + ["the walk itself (a client loop calling next() and delete()) is not a function of the repository: it is verified as a client written in the repository's iteration idiom, with an uncontracted decide() standing for the caller's arbitrary choice"],
        "level_text": "delete() through a cursor removes exactly the byte range of the record under the cursor from the (decompressed) packet, lowers exactly that section's count, clears the section offset when the count reaches zero, and turns the cursor into a tombstone (exact-state postcondition `deleted`); client_delete proves for every valid cursor of a record section: the call succeeds, object and cursor invariants hold again, the section then consists of the k records before the cursor in place and the n-k-1 after it moved up (byte-exact), and a second delete() through the same cursor returns an error leaving packet and cursor untouched; client_walk_delete proves the general statement, on compressed and pointer-free packets: the repository's walk idiom (`while let Some(mut item) = it { if decide(&item) { item.delete() } it = item.next() }`) with a `decide` that has NO contract (arbitrary subset, arbitrary answers on revisits) terminates (lexicographic decreases: records left, records not yet reached), and afterwards the section holds exactly the never-deleted records, byte for byte, in their original order, with a matching count (ghost index sequence `cur`, lemma_cut_recs), every survivor was yielded at least once, only members of the current section are ever yielded (so no deleted record again), and an emptied section reads as absent. client_delete_all_answers is the special case 'delete everything'. client_walk_delete(pp, authority, additional) is that proof for ALL THREE record sections: answer, authority and additional -- in the additional section the walk (into_iter_additional() + next()) is never given the OPT record, wherever it sits; next() is proved to skip nothing but the OPT record and to return None only when nothing but the OPT record is left, so the postcondition reads: the section holds exactly the never-deleted records (the OPT record among them) byte for byte in their original order, and every survivor other than the OPT record was yielded. For the question, client_delete_question proves the only walk there is (one record): deleting the question through its cursor, on compressed and pointer-free packets, succeeds, leaves an object that satisfies its invariant for the new bytes (qdcount 0, offset_question absent, every later section moved up by exactly the length of the question: lemma_q_cut / lemma_q_deleted_wf), and a second delete through the same cursor is refused without touching anything -- the resulting bytes are a packet without a question, which the parser's policy rejects (open known finding on policy clauses). The differential replay runs the same walks over all subsets of up to 8 records",
        "technique": "Verus exact-state postcondition of delete() incl. the tombstone protocol + verified walk clients over the three record sections with an uncontracted decide() (termination by decreases); question walk by differential replay (stated)",
    },
})

NOT_APPLICABLE = {
    "C15": "C ABI facade: unsafe extern \"C\" wrappers over raw pointers driven through callbacks, plus parity with a C header; "
           "neither Verus (no model of these raw-pointer casts/CStr) nor Kani (no callbacks-as-scripts, every fallible wrapper reaches anyhow) "
           "can state 'same result and state as the native call' as a contract; see DESIGN.md C15",
    "C16": "quantifies over thread interleavings; Kani has no thread support and single-file Verus has no model of thread_local!/RefCell; "
           "no contract within reach expresses it; see DESIGN.md C16",
}
