"""Per-property configuration: which units decide it, which functions form its cone, paired Kani harnesses,
witness-search generator of the replay crate.  (DESIGN.md section 5.)"""

# A failure in function F of a unit counts for property P iff F's key matches one of P's cone regexes
# (None = every function of the unit), and -- when the failing clause carries a tag comment like `// [C12 C04]` --
# only if P is listed in the tag.

PROPS = {
    "C12": {
        "title": "Header setters touch only their own bits; getters return what was set",
        "units": ["U3"],
        "cone": [r"parsed_packet\.rs::ParsedPacket::(packet|packet_mut|tid|set_tid|flags|set_flags|is_response|set_response|rcode|set_rcode|opcode|set_opcode)$",
                 r"dns_sector\.rs::DNSSector::(is_response|set_response)$",
                 r"spec/clients_u3\.rs::"],
        "witness": ("c12", 20000),
        "kani": {"harnesses": ["c12_set_flags", "c12_set_rcode", "c12_set_opcode", "c12_set_response", "c12_set_tid"],
                 "quick": True,
                 # Verus obligations that a complete loop-free Kani harness on the real crate may arbitrate (DESIGN 3.5)
                 "arbitrate": {r"ParsedPacket::set_flags$": "c12_set_flags", r"ParsedPacket::set_rcode$": "c12_set_rcode",
                               r"ParsedPacket::set_opcode$": "c12_set_opcode", r"::set_response$": "c12_set_response",
                               r"ParsedPacket::set_tid$": "c12_set_tid",
                               r"ParsedPacket::(flags|rcode|opcode|is_response|tid)$": "c04_header_getters",
                               r"DNSSector::is_response$": "c12_set_response"}},
        "level": "proof",
        "design_ref": "DESIGN.md section 5 C12",
        "technique": "Verus contracts (bit_vector) on the extracted real setters/getters + complete loop-free Kani/CBMC harnesses on the compiled real crate",
    },
}

NOT_APPLICABLE = {
    "C15": "C ABI facade: unsafe extern \"C\" wrappers over raw pointers driven through callbacks, plus parity with a C header; "
           "neither Verus (no model of these raw-pointer casts/CStr) nor Kani (no callbacks-as-scripts, every fallible wrapper reaches anyhow) "
           "can state 'same result and state as the native call' as a contract; see DESIGN.md C15",
    "C16": "quantifies over thread interleavings; Kani has no thread support and single-file Verus has no model of thread_local!/RefCell; "
           "no contract within reach expresses it; see DESIGN.md C16",
}
