#!/usr/bin/env python3
"""Runs the units of a property through Verus, classifies the outcome, searches a failing input for every
failed obligation, and writes the evidence file.  See DESIGN.md 3.5 / 8."""
import json
import os
import re
import subprocess
import sys
import time
import hashlib
import concurrent.futures

HERE = os.path.dirname(os.path.abspath(__file__))
ROOT = os.path.dirname(HERE)
sys.path.insert(0, HERE)
sys.path.insert(0, ROOT)
import extract  # noqa
from rustlex import ExtractError  # noqa

BUILD = os.path.join(ROOT, "build")
VERUS = os.environ.get("VERUS", "verus")
ENV = dict(os.environ, CARGO_NET_OFFLINE="true")

VERIF_MSG = (
    "postcondition not satisfied", "precondition not satisfied", "assertion failed", "invariant not satisfied",
    "possible arithmetic underflow/overflow", "possible division by zero", "decreases not satisfied",
    "loop invariant not satisfied", "possible bit shift underflow/overflow", "recommendation not met",
    "unreachable", "could not prove termination", "index out of bounds", "cannot show", "might not be allowed",
    "possible truncation", "failed precondition", "not satisfied",
    "precondition not met",                           # vstd's own preconditions (e.g. "index in bounds for this access")
    "unable to prove",                                # e.g. "... post-condition of closure": a closure header from the side-car no longer holds for the closure's body
    "cannot prove", "could not prove", "may fail to meet",
)


class Failure:
    def __init__(self, unit, fnkey, kind, message, gen_line, src, clause, rendered, line_text=""):
        self.unit, self.fnkey, self.kind, self.message = unit, fnkey, kind, message
        self.gen_line, self.src, self.clause, self.rendered = gen_line, src, clause, rendered
        self.line_text = line_text
        m = re.search(r"//\s*\[((?:C\d+[ ,]*)+)\]", line_text or "")
        self.tags = re.findall(r"C\d+", m.group(1)) if m else None

    def name(self):
        h = hashlib.sha256(" ".join(self.clause.split()).encode()).hexdigest()[:8]
        return "%s/%s/%s#%s" % (self.unit, self.fnkey, self.kind, h)

    def to_json(self):
        return {"obligation": self.name(), "unit": self.unit, "function": self.fnkey, "kind": self.kind, "message": self.message,
                "source": self.src, "clause": " ".join(self.clause.split())[:400], "generated_line": self.gen_line}


def kind_of(msg):
    m = msg.lower()
    if m.strip() == "requires not satisfied":
        return "assert"      # `assert(..) by(bit_vector) requires ..`: the hint's own premise
    if "postcondition" in m or "post-condition" in m:
        return "ensures"
    if "precondition" in m:
        return "requires-at-call"
    if "invariant" in m:
        return "invariant"
    if "decreases" in m or "termination" in m:
        return "decreases"
    if "assertion" in m:
        return "assert"
    if "overflow" in m or "underflow" in m or "division" in m or "truncation" in m:
        return "safety-arith"
    return "safety"


class UnitResult:
    def __init__(self, unit):
        self.unit = unit
        self.status = "ok"        # ok | failed | undecided
        self.reason = ""
        self.failures = []
        self.functions = []       # [{function, success, time_us, rlimit}]
        self.verified = 0
        self.errors = 0
        self.meta = None
        self.cmd = ""
        self.wall = 0.0
        self.smt_ms = 0
        self.raw_err = ""


def fn_ranges(meta, gen_text):
    """map generated line -> function key, using the linemap and the item list"""
    # derive from item 'src' ranges
    ranges = []
    for it in meta["items"]:
        s = it.get("src", "")
        m = re.match(r"(.+):(\d+)-(\d+)$", s)
        if m:
            ranges.append((m.group(1), int(m.group(2)), int(m.group(3)), it["key"]))
    return ranges


def locate(meta, gen_lines, line, ranges):
    """generated line -> (fnkey, 'file:line', is_spliced)"""
    lm = meta["linemap"]
    if line < 1 or line > len(lm) or lm[line - 1] is None:
        return (None, None, True)
    ent = lm[line - 1]
    if ent[1] is None:
        return ("<%s>" % ent[0], ent[0], True)
    rel, sl = ent[0], ent[1]
    spliced = len(ent) > 2
    key = None
    for (r, a, b, k) in ranges:
        if r == rel and a <= sl <= b:
            key = k
            break
    return (key, "%s:%d" % (rel, sl), spliced)


def enclosing_fn_of_line(gen_lines, line):
    """name of the verus fn containing generated line (for spec/client files)"""
    for i in range(line - 1, -1, -1):
        m = re.match(r"\s*(?:pub\s+)?(?:open\s+|closed\s+)?(?:proof\s+|spec\s+|exec\s+)?fn\s+([A-Za-z_0-9]+)", gen_lines[i])
        if m:
            return m.group(1)
    return None


def run_unit(unit, rlimit=30, seed=None, outdir=None, extra_flags=(), multiple_errors=4):
    res = UnitResult(unit)
    t0 = time.time()
    try:
        path, meta = extract.build_unit(unit, outdir)
    except ExtractError as e:
        res.status, res.reason = "undecided", "extract: %s" % e
        res.wall = time.time() - t0
        return res
    except FileNotFoundError as e:
        res.status, res.reason = "undecided", "extract: missing file %s" % e
        res.wall = time.time() - t0
        return res
    res.meta = meta
    cmd = [VERUS, path, "--output-json", "--time", "--error-format=json", "--multiple-errors", str(multiple_errors), "--rlimit", str(meta.get("rlimit") or rlimit), "--no-report-long-running", "-V", "spinoff-all"]   # one solver instance per function: a failing function does not slow down or disturb the others
    cmd += list(meta.get("flags", [])) + list(extra_flags)
    if seed is not None:
        cmd += ["--smt-option", "smt.random_seed=%d" % seed]
    res.cmd = " ".join(cmd)
    p = subprocess.run(cmd, capture_output=True, text=True, cwd=ROOT)
    res.wall = time.time() - t0
    res.raw_err = p.stderr
    summary = None
    try:
        i = p.stdout.index("{")
        summary = json.loads(p.stdout[i:])
    except Exception:
        summary = None
    with open(path) as f:
        gen_lines = f.read().split("\n")
    ranges = fn_ranges(meta, gen_lines)
    diags = []
    for line in p.stderr.split("\n"):
        line = line.strip()
        if line.startswith("{"):
            try:
                diags.append(json.loads(line))
            except Exception:
                pass
    hard_errors = []
    rlimit_hit = []
    for d in diags:
        if d.get("level") != "error":
            continue
        msg = d.get("message", "")
        if msg.startswith("aborting due to"):
            continue
        prim = [s for s in d.get("spans", []) if s.get("is_primary")]
        line = prim[0]["line_start"] if prim else 0
        if "rlimit" in msg.lower() or "resource limit" in msg.lower():
            rlimit_hit.append((msg, line))
            continue
        if not any(v in msg for v in VERIF_MSG):
            hard_errors.append("%s (generated line %d)" % (msg, line))
            continue
        # the failing clause text: primary span text
        clause = ""
        if prim:
            sp = prim[0]
            clause = " ".join(t["text"][max(0, t["highlight_start"] - 1):t["highlight_end"] - 1] if len(sp["text"]) == 1 else t["text"] for t in sp["text"])
        # which function: the body location is the non-primary span, or the primary if it is inside a body
        fnkey, src, spliced = locate(meta, gen_lines, line, ranges)
        body_line = None
        for s in d.get("spans", []):
            if not s.get("is_primary"):
                body_line = s["line_start"]
        if body_line:
            k2, s2, _ = locate(meta, gen_lines, body_line, ranges)
            if k2 and not k2.startswith("<"):
                fnkey = k2
                if spliced:
                    src = s2
        if fnkey is None or fnkey.startswith("<"):
            nm = enclosing_fn_of_line(gen_lines, body_line or line)
            fnkey = "%s::%s" % ((fnkey or "<generated>").strip("<>"), nm)
        lt = gen_lines[line - 1] if 0 < line <= len(gen_lines) else ""
        res.failures.append(Failure(unit, fnkey, kind_of(msg), msg, line, src, clause or msg, d.get("rendered", ""), lt))
    if summary:
        vr = summary.get("verification-results", {})
        res.verified = vr.get("verified", 0)
        res.errors = vr.get("errors", 0)
        try:
            smt = summary["times-ms"]["smt"]
            res.smt_ms = smt.get("total", 0)
            for mod in smt.get("smt-run-module-times", []):
                for fb in mod.get("function-breakdown", []):
                    res.functions.append({"function": fb["function"], "success": fb["success"], "time_us": fb["time-micros"], "rlimit": fb["rlimit"]})
        except Exception:
            pass
    if hard_errors:
        res.status, res.reason = "undecided", "tool: " + "; ".join(hard_errors[:3])
    elif summary is None:
        res.status, res.reason = "undecided", "tool: no verifier summary (exit %d): %s" % (p.returncode, p.stderr[-300:])
    elif rlimit_hit and not res.failures:
        res.status, res.reason = "undecided", "rlimit: " + "; ".join("%s line %d" % x for x in rlimit_hit[:3])
    elif res.failures:
        res.status = "failed"
    elif res.errors:
        res.status, res.reason = "undecided", "tool: verifier reports %d errors but none could be parsed" % res.errors
    else:
        res.status = "ok"
    return res


def run_units(units, **kw):
    with concurrent.futures.ThreadPoolExecutor(max_workers=max(1, len(units))) as ex:
        futs = {u: ex.submit(run_unit, u, **kw) for u in units}
        return {u: f.result() for u, f in futs.items()}


# ---------------------------------------------------------------- replay crate / kani

def build_replay():
    d = os.path.join(ROOT, "replay")
    p = subprocess.run(["cargo", "build", "--offline", "--quiet"], cwd=d, capture_output=True, text=True, env=ENV)
    if p.returncode != 0:
        return None, p.stderr[-2000:]
    return os.path.join(d, "target", "debug", "dnssector-replay"), ""


def witness_search(prop_lc, seed, n, filt="", timeout=120):
    binp, err = build_replay()
    if not binp:
        return {"status": "tool", "detail": "replay crate does not build: " + err}
    try:
        p = subprocess.run([binp, "search", prop_lc, str(seed), str(n)] + ([filt] if filt else []), capture_output=True, text=True, timeout=timeout)
    except subprocess.TimeoutExpired:
        return {"status": "timeout"}
    out = p.stdout
    tried = re.search(r"TRIED (\d+) DISTINCT (\d+)", out)
    res = {"status": "none", "tried": int(tried.group(1)) if tried else 0, "distinct": int(tried.group(2)) if tried else 0}
    m = re.search(r"^WITNESS (.*)$", out, re.M)
    if m:
        f = re.search(r"^FAIL (.*)$", out, re.M)
        res.update({"status": "found", "args": m.group(1).split(), "observed": f.group(1) if f else ""})
    return res


def replay_args(args, timeout=60):
    binp, err = build_replay()
    if not binp:
        return 2, "replay crate does not build: " + err
    p = subprocess.run([binp] + list(args), capture_output=True, text=True, timeout=timeout)
    return p.returncode, p.stdout.strip()


def run_kani(harnesses, timeout=900):
    """returns {harness: {'status': 'proved'|'refuted'|'tool', 'time_s':.., 'detail':..}}"""
    d = os.path.join(ROOT, "kani")
    try:
        import shutil
        shutil.copy(os.path.join(extract.REPO, "Cargo.lock"), os.path.join(d, "Cargo.lock"))
    except Exception:
        pass
    cmd = ["cargo", "kani", "-j", "8", "--output-format", "terse"]
    for h in harnesses:
        cmd += ["--harness", h]
    t0 = time.time()
    try:
        p = subprocess.run(cmd, cwd=d, capture_output=True, text=True, env=ENV, timeout=timeout)
    except subprocess.TimeoutExpired:
        return {h: {"status": "tool", "detail": "timeout"} for h in harnesses}
    out = p.stdout + "\n" + p.stderr
    res = {}
    # terse output: "Checking harness X..." then (maybe) failed checks, "VERIFICATION:- SUCCESSFUL|FAILED"
    # with -j the blocks are not interleaved per harness reliably, so use the final summary lists
    ok = re.search(r"Complete - (\d+) successfully verified harnesses, (\d+) failures, (\d+) total", out)
    failed_names = re.findall(r"Verification failed for - ([A-Za-z_0-9:]+)", out)
    for h in harnesses:
        if any(fn.endswith(h) for fn in failed_names):
            res[h] = {"status": "refuted"}
        elif ok:
            res[h] = {"status": "proved"}
        else:
            res[h] = {"status": "tool", "detail": out[-500:]}
    for h in res:
        res[h]["time_s"] = round(time.time() - t0, 1)
    res["_log"] = out[-3000:]
    return res


def kani_counterexample(harness, timeout=600):
    d = os.path.join(ROOT, "kani")
    cmd = ["cargo", "kani", "--harness", harness, "-Z", "concrete-playback", "--concrete-playback=print"]
    try:
        p = subprocess.run(cmd, cwd=d, capture_output=True, text=True, env=ENV, timeout=timeout)
    except subprocess.TimeoutExpired:
        return None
    out = p.stdout
    m = re.search(r"let concrete_vals: Vec<Vec<u8>> = vec!\[(.*?)\];", out, re.S)
    if not m:
        return None
    vals = []
    for v in re.findall(r"vec!\[([0-9, ]*)\]", m.group(1)):
        vals.append([int(x) for x in v.replace(" ", "").split(",") if x != ""])
    return vals
