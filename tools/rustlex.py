"""Minimal Rust lexer + item locator (python3 stdlib only).

Good enough for rustfmt-formatted library code: it skips strings, chars,
lifetimes and comments, matches braces, and finds top-level items and the
members of impl / trait blocks.  It fails loudly (ExtractError) when something
is missing or ambiguous; it never guesses.
"""
import re


class ExtractError(Exception):
    pass


IDENT_START = set("abcdefghijklmnopqrstuvwxyzABCDEFGHIJKLMNOPQRSTUVWXYZ_")
IDENT_CONT = IDENT_START | set("0123456789")


def lex(src):
    """Return list of (kind, start, end).  kinds: ws comment str char lifetime ident num punct"""
    toks = []
    i, n = 0, len(src)
    while i < n:
        c = src[i]
        if c in " \t\r\n":
            j = i + 1
            while j < n and src[j] in " \t\r\n":
                j += 1
            toks.append(("ws", i, j))
            i = j
        elif src.startswith("//", i):
            j = src.find("\n", i)
            if j < 0:
                j = n
            toks.append(("comment", i, j))
            i = j
        elif src.startswith("/*", i):
            depth, j = 1, i + 2
            while j < n and depth:
                if src.startswith("/*", j):
                    depth += 1
                    j += 2
                elif src.startswith("*/", j):
                    depth -= 1
                    j += 2
                else:
                    j += 1
            toks.append(("comment", i, j))
            i = j
        elif c == '"' or (c == "b" and src.startswith('b"', i)):
            j = i + (2 if c == "b" else 1)
            while j < n and src[j] != '"':
                j += 2 if src[j] == "\\" else 1
            toks.append(("str", i, j + 1))
            i = j + 1
        elif c == "r" and re.match(r'r#*"', src[i:i + 8] or ""):
            m = re.match(r'r(#*)"', src[i:])
            close = '"' + m.group(1)
            j = src.find(close, i + len(m.group(0)))
            if j < 0:
                raise ExtractError("unterminated raw string")
            toks.append(("str", i, j + len(close)))
            i = j + len(close)
        elif c == "'" or (c == "b" and src.startswith("b'", i)):
            k = i + (1 if c == "b" else 0)
            # char literal or lifetime
            m = re.match(r"'(\\.[^']*|[^\\'])'", src[k:k + 12])
            if m:
                toks.append(("char", i, k + m.end()))
                i = k + m.end()
            else:
                j = k + 1
                while j < n and src[j] in IDENT_CONT:
                    j += 1
                toks.append(("lifetime", i, j))
                i = j
        elif c in IDENT_START:
            j = i + 1
            while j < n and src[j] in IDENT_CONT:
                j += 1
            # raw identifiers r#gen
            toks.append(("ident", i, j))
            i = j
        elif c.isdigit():
            j = i + 1
            while j < n and (src[j] in IDENT_CONT or (src[j] == "." and j + 1 < n and src[j + 1].isdigit())):
                j += 1
            toks.append(("num", i, j))
            i = j
        else:
            toks.append(("punct", i, i + 1))
            i += 1
    return toks


OPEN = {"(": ")", "[": "]", "{": "}"}
CLOSE = {")": "(", "]": "[", "}": "{"}


def strip_comments(src):
    """Replace comments by whitespace, keeping every newline (line structure preserved)."""
    out = list(src)
    for kind, a, b in lex(src):
        if kind == "comment":
            for k in range(a, b):
                if out[k] != "\n":
                    out[k] = " "
    return "".join(out)


def code_tokens(src, toks=None):
    toks = toks if toks is not None else lex(src)
    return [t for t in toks if t[0] not in ("ws", "comment")]


def match_close(src, toks, idx):
    """toks: code tokens; idx points at an opening bracket token. Return index of the matching close."""
    opener = src[toks[idx][1]]
    assert opener in OPEN, opener
    depth = 0
    for j in range(idx, len(toks)):
        k, a, b = toks[j]
        if k != "punct":
            continue
        ch = src[a]
        if ch in OPEN:
            depth += 1
        elif ch in CLOSE:
            depth -= 1
            if depth == 0:
                return j
    raise ExtractError("unbalanced bracket at byte %d" % toks[idx][1])


ITEM_KW = ("use", "const", "static", "struct", "enum", "impl", "trait", "fn", "type", "mod", "extern", "macro_rules", "union")


class Item:
    def __init__(self, kind, name, start, end, header_end=None, body=None):
        self.kind = kind          # fn / struct / enum / impl / trait / const / ...
        self.name = name
        self.start = start        # byte offset incl. attributes / doc comments
        self.end = end            # byte offset after the item
        self.header_end = header_end  # byte offset of the body's '{' (fn/impl/trait) or None
        self.body = body          # (open, close) byte offsets of body braces, or None
        self.members = []

    def __repr__(self):
        return "Item(%s %s %d..%d)" % (self.kind, self.name, self.start, self.end)


def _norm_header(s):
    # drop lifetime-only generic groups (<'t>, <'_>), collapse whitespace
    s = re.sub(r"<\s*'[A-Za-z_0-9]*\s*(,\s*'[A-Za-z_0-9]*\s*)*>", "", s)
    return " ".join(s.split())


def parse_items(src, lo=0, hi=None):
    """Parse the items between byte offsets lo..hi (top level of a file or the inside of an impl/trait body)."""
    hi = len(src) if hi is None else hi
    alltoks = [t for t in lex(src[lo:hi])]
    alltoks = [(k, a + lo, b + lo) for (k, a, b) in alltoks]
    toks = [t for t in alltoks if t[0] != "ws"]
    items = []
    i = 0
    n = len(toks)
    pending_start = None
    while i < n:
        k, a, b = toks[i]
        text = src[a:b]
        if k == "comment":
            if pending_start is None and (text.startswith("///") or text.startswith("//!") is False and text.startswith("/**")):
                pending_start = a
            i += 1
            continue
        if k == "punct" and text == "#":
            # attribute: # [ ... ]  or #![...]
            if pending_start is None:
                pending_start = a
            j = i + 1
            if j < n and src[toks[j][1]] == "!":
                j += 1
            if j < n and src[toks[j][1]] == "[":
                code = [t for t in toks[j:]]
                cj = match_close(src, code, 0)
                i = j + cj + 1
                continue
            raise ExtractError("stray # at %d" % a)
        if k == "ident":
            start = pending_start if pending_start is not None else a
            # skip visibility / qualifiers
            j = i
            while j < n and toks[j][0] == "ident" and src[toks[j][1]:toks[j][2]] in ("pub", "unsafe", "async", "default"):
                j += 1
                if j < n and src[toks[j][1]] == "(" and src[toks[j - 1][1]:toks[j - 1][2]] == "pub":
                    j = j + match_close(src, toks[j:], 0) + 1
            if j >= n:
                break
            kw = src[toks[j][1]:toks[j][2]]
            if kw == "const" and j + 1 < n and src[toks[j + 1][1]:toks[j + 1][2]] == "fn":
                j += 1
                kw = "fn"
            if kw == "extern" and j + 2 < n and toks[j + 1][0] == "str" and src[toks[j + 2][1]:toks[j + 2][2]] == "fn":
                j += 2
                kw = "fn"
            if kw not in ITEM_KW and j + 1 < n and src[toks[j + 1][1]] == "!":
                # macro invocation item: name!{...} / name!(...);
                m = j + 2
                cm = m + match_close(src, toks[m:], 0)
                end = toks[cm][2]
                if cm + 1 < n and src[toks[cm + 1][1]] == ";":
                    end = toks[cm + 1][2]
                items.append(Item("macro", kw, start, end))
                while i < n and toks[i][1] < end:
                    i += 1
                pending_start = None
                continue
            if kw not in ITEM_KW:
                raise ExtractError("unexpected token %r at byte %d" % (kw, toks[j][1]))
            # find end: first ';' or '{...}' at depth 0
            name = None
            if kw in ("fn", "struct", "enum", "trait", "const", "static", "type", "mod", "union"):
                name = src[toks[j + 1][1]:toks[j + 1][2]]
                if name == "mut":
                    name = src[toks[j + 2][1]:toks[j + 2][2]]
            m = j + 1
            depth = 0
            body = None
            header_end = None
            end = None
            while m < n:
                kk, aa, bb = toks[m]
                if kk == "punct":
                    ch = src[aa]
                    if ch in "([":
                        m = m + match_close(src, toks[m:], 0)
                    elif ch == "{":
                        cm = m + match_close(src, toks[m:], 0)
                        body = (aa, toks[cm][1])
                        header_end = aa
                        end = toks[cm][2]
                        # struct Foo {...}  / fn / impl / trait / enum end here; `const X: T = Foo {..};` continues
                        if kw in ("const", "static", "use", "type"):
                            m = cm
                        else:
                            break
                    elif ch == ";":
                        end = bb
                        if kw in ("const", "static", "use", "type"):
                            body = None
                            header_end = None
                        break
                m += 1
            if end is None:
                raise ExtractError("unterminated item %s %s" % (kw, name))
            if kw in ("impl",):
                name = _norm_header(src[toks[j][2]:header_end])
            it = Item(kw, name, start, end, header_end, body)
            items.append(it)
            # advance i past end
            while i < n and toks[i][1] < end:
                i += 1
            pending_start = None
            continue
        raise ExtractError("unexpected token %r at byte %d" % (text, a))
    return items


class SourceFile:
    def __init__(self, path, relname):
        self.path = path
        self.rel = relname
        with open(path) as f:
            self.src = f.read()
        self.items = parse_items(self.src)
        for it in self.items:
            if it.kind in ("impl", "trait") and it.body:
                it.members = parse_items(self.src, it.body[0] + 1, it.body[1])
        self._line_starts = [0]
        for m in re.finditer("\n", self.src):
            self._line_starts.append(m.end())

    def line_of(self, off):
        import bisect
        return bisect.bisect_right(self._line_starts, off)

    def find(self, kind, name):
        got = [it for it in self.items if it.kind == kind and it.name == name]
        if len(got) != 1:
            raise ExtractError("%s: %d items match %s %s" % (self.rel, len(got), kind, name))
        return got[0]

    def find_member(self, owner_kind, owner, fn):
        own = self.find(owner_kind, owner)
        got = [m for m in own.members if m.kind == "fn" and m.name == fn]
        if len(got) != 1:
            raise ExtractError("%s: %d members match %s::%s" % (self.rel, len(got), owner, fn))
        return own, got[0]
