#!/usr/bin/env python3
"""Mechanical extraction of dnssector functions into single-file Verus units.

Every run re-reads /repo/src (or $VERIF_REPO/src), locates the items a unit
lists, applies the closed rewrite table (DESIGN.md section 3.2; every
application is logged with file:line), splices the contracts of the side-car
files in, and writes build/<unit>.rs plus build/<unit>.map.json (line map,
rewrite log, item hashes).  Nothing else is changed in the function bodies.
"""
import hashlib
import json
import os
import re
import sys

HERE = os.path.dirname(os.path.abspath(__file__))
ROOT = os.path.dirname(HERE)
sys.path.insert(0, HERE)
from rustlex import (ExtractError, SourceFile, lex, strip_comments, OPEN, CLOSE)  # noqa

REPO = os.environ.get("VERIF_REPO", "/repo")
try:
    with open(os.path.join(HERE, "pinned_items.json")) as _f:
        PINNED = json.load(_f)
except Exception:
    PINNED = {}
S_IN, S_OUT = "\x01", "\x02"   # sentinels around spliced (non-repo) text


# --------------------------------------------------------------------------
# small text helpers (all bracket-aware, string/char-literal-aware)
# --------------------------------------------------------------------------

def _code_mask(text):
    """mask[i] is True when text[i] is code (not inside a string/char literal or comment)."""
    mask = [True] * len(text)
    for kind, a, b in lex(text):
        if kind in ("str", "char", "comment"):
            for k in range(a, b):
                mask[k] = False
    return mask


def find_close(text, i, mask=None):
    """text[i] is an opening bracket; return index of the matching closing bracket."""
    mask = mask or _code_mask(text)
    depth = 0
    for j in range(i, len(text)):
        if not mask[j]:
            continue
        c = text[j]
        if c in OPEN:
            depth += 1
        elif c in CLOSE:
            depth -= 1
            if depth == 0:
                return j
    raise ExtractError("unbalanced bracket")


def split_top(text, sep=","):
    """split at top-level separators"""
    mask = _code_mask(text)
    parts, depth, last = [], 0, 0
    for j, c in enumerate(text):
        if not mask[j]:
            continue
        if c in OPEN:
            depth += 1
        elif c in CLOSE:
            depth -= 1
        elif c == sep and depth == 0:
            parts.append(text[last:j])
            last = j + 1
    parts.append(text[last:])
    return parts


def keep_lines(orig, repl):
    """Return repl adjusted to contain exactly as many newlines as orig (line structure preserved)."""
    n_o = orig.count("\n")
    n_r = repl.count("\n")
    if n_r > n_o:
        # collapse surplus newlines (from the end) into spaces
        parts = repl.split("\n")
        head = "\n".join(parts[:n_o + 1])
        tail = " ".join(p.strip() for p in parts[n_o + 1:])
        repl = head + " " + tail
    elif n_r < n_o:
        repl = repl + "\n" * (n_o - n_r)
    return repl


def blank(text):
    return "".join(c if c == "\n" else " " for c in text)


# --------------------------------------------------------------------------
# the rewrite table
# --------------------------------------------------------------------------

class Rewriter:
    def __init__(self, key, relfile, first_line, log):
        self.key = key
        self.rel = relfile
        self.first_line = first_line
        self.log = log
        self.borrow = set()
        self.helpers = []      # generated helper fns (R4): (name, params, body_text)
        self.prologue = []     # R3 rebinds

    def note(self, rule, text, pos, detail=""):
        line = self.first_line + text.count("\n", 0, pos)
        self.log.append({"rule": rule, "fn": self.key, "at": "%s:%d" % (self.rel, line), "detail": detail})

    # R11: attributes and comments are removed
    def strip_attrs(self, text):
        mask = _code_mask(text)
        out = text
        for m in list(re.finditer(r"#\s*\[", text)):
            if not mask[m.start()]:
                continue
            j = find_close(text, m.end() - 1, mask)
            seg = text[m.start():j + 1]
            if re.match(r"#\s*\[\s*cfg\s*\(\s*dnssector_verif\s*\)\s*\]", seg):
                # instrumentation of the verification harness itself (MANIFEST.hooks): the guarded statement is not part of a normal build
                k = text.index(";", j)
                self.note("hook", text, m.start(), "cfg(dnssector_verif) statement dropped: " + " ".join(text[j + 1:k + 1].split()))
                out = out[:m.start()] + blank(text[m.start():k + 1]) + out[k + 1:]
                continue
            self.note("R11", text, m.start(), " ".join(seg.split())[:60])
            out = out[:m.start()] + blank(seg) + out[j + 1:]
        return out

    def apply_body(self, text, cfg):
        """text: whole fn text (signature + body), comments already stripped."""
        t = text
        self.borrow = set(cfg.get("borrow", []))
        t = self.r1_bail(t)
        t = self.r6_asserts(t)
        t = self.r7_panics(t)
        t = self.r8_expect(t)
        t = self.r10_byteorder(t)
        t = self.r9_extend(t)
        t = self.r26_copy_into(t)
        t = self.r2_match_index(t)
        t = self.r4_iter_adapters(t, cfg)
        t = self.r5_for_enumerate(t)
        t = self.r17_zip(t)
        t = self.r23_chunks(t)
        t = self.r15_for_underscore(t)
        t = self.r14_closure_underscore(t)
        t = self.r16_cmp_max(t)
        t = self.r18_closure_headers(t, cfg)
        t = self.r12_rand(t)
        t = self.r19_misc(t)
        return t

    # R1 bail!(E) -> return Err(E)
    def r1_bail(self, t):
        out, pos = [], 0
        for m in re.finditer(r"\bbail!\s*\(", t):
            self.note("R1", t, m.start())
            out.append(t[pos:m.start()])
            out.append("return Err(")
            pos = m.end()
        out.append(t[pos:])
        return "".join(out)

    # R6 assert!/assert_eq!/debug_assert!/debug_assert_eq! -> rt_assert(..)
    def r6_asserts(self, t):
        while True:
            mask = _code_mask(t)
            m = None
            for mm in re.finditer(r"\b(debug_assert_eq|debug_assert_ne|debug_assert|assert_eq|assert_ne|assert)!\s*\(", t):
                if mask[mm.start()]:
                    m = mm
                    break
            if not m:
                return t
            j = find_close(t, m.end() - 1, mask)
            inner = t[m.end():j]
            args = split_top(inner)
            kind = m.group(1)
            if kind.endswith("_eq"):
                repl = "rt_assert((%s) == (%s))" % (args[0].strip(), args[1].strip())
            elif kind.endswith("_ne"):
                repl = "rt_assert((%s) != (%s))" % (args[0].strip(), args[1].strip())
            else:
                repl = "rt_assert(%s)" % args[0].strip()
            self.note("R6", t, m.start(), kind)
            t = t[:m.start()] + keep_lines(t[m.start():j + 1], repl) + t[j + 1:]

    # R7 panic!/unreachable! -> unreached()
    def r7_panics(self, t):
        while True:
            mask = _code_mask(t)
            m = None
            for mm in re.finditer(r"\b(panic|unreachable|unimplemented|todo)!\s*\(", t):
                if mask[mm.start()]:
                    m = mm
                    break
            if not m:
                return t
            j = find_close(t, m.end() - 1, mask)
            self.note("R7", t, m.start(), m.group(1))
            stmt = t[j + 1:].lstrip().startswith(";")
            t = t[:m.start()] + keep_lines(t[m.start():j + 1], "rt_unreachable::<()>()" if stmt else "rt_unreachable()") + t[j + 1:]

    # R8 .expect("..") -> .unwrap()
    def r8_expect(self, t):
        while True:
            mask = _code_mask(t)
            m = None
            for mm in re.finditer(r"\.\s*expect\s*\(", t):
                if mask[mm.start()]:
                    m = mm
                    break
            if not m:
                return t
            j = find_close(t, m.end() - 1, mask)
            self.note("R8", t, m.start())
            t = t[:m.start()] + keep_lines(t[m.start():j + 1], ".unwrap()") + t[j + 1:]

    # R9 v.extend(&S) / v.extend(S) -> v.extend_from_slice(..)
    def r9_extend(self, t):
        out, pos = [], 0
        mask = _code_mask(t)
        for m in re.finditer(r"\.\s*extend\s*\(", t):
            if not mask[m.start()]:
                continue
            self.note("R9", t, m.start())
            out.append(t[pos:m.start()])
            seg = t[m.start():m.end()]
            out.append(seg.replace("extend", "extend_from_slice"))
            pos = m.end()
        out.append(t[pos:])
        return "".join(out)

    # R10 BigEndian::{read,write}_u{16,32}(&[mut] E[o..], ..) -> be_*(E, o, ..)
    def r10_byteorder(self, t):
        while True:
            mask = _code_mask(t)
            m = None
            for mm in re.finditer(r"\bBigEndian::(read|write)_u(16|32)\s*\(", t):
                if mask[mm.start()]:
                    m = mm
                    break
            if not m:
                return t
            j = find_close(t, m.end() - 1, mask)
            args = split_top(t[m.end():j])
            a0 = args[0].strip()
            mm2 = re.match(r"&\s*(mut\s+)?(.*)$", a0, re.S)
            if not mm2:
                raise ExtractError("R10: unexpected first argument %r in %s" % (a0, self.key))
            target = mm2.group(2).strip()
            # target = E[o..] or E[a..b]
            if not target.endswith("]"):
                raise ExtractError("R10: unexpected slice expression %r in %s" % (target, self.key))
            # find the '[' matching the last ']'
            depth = 0
            k = len(target) - 1
            tm = _code_mask(target)
            while k >= 0:
                if tm[k]:
                    if target[k] in CLOSE:
                        depth += 1
                    elif target[k] in OPEN:
                        depth -= 1
                        if depth == 0:
                            break
                k -= 1
            base = target[:k].strip()
            rng = target[k + 1:-1]
            mr = re.match(r"^(.*?)\.\.(.*)$", rng, re.S)
            if not mr:
                raise ExtractError("R10: not a range %r in %s" % (rng, self.key))
            lo = mr.group(1).strip() or "0"
            hi = mr.group(2).strip()
            # a field place (self.packet) or a local listed by `@borrow` is borrowed; references are passed on as they are
            if (re.match(r"^[A-Za-z_][A-Za-z_0-9]*(\.[A-Za-z_][A-Za-z_0-9]*)+$", base) or base in self.borrow) and not base.startswith("&"):
                base = ("&mut " if mm2.group(1) else "&") + base
            fn = "be_%s_u%s" % (m.group(1), m.group(2))
            rest = [a.strip() for a in args[1:] if a.strip()]
            if hi:
                fn += "_rng"
                call = "%s(%s, %s, %s%s)" % (fn, base, lo, hi, "".join(", " + r for r in rest))
            else:
                call = "%s(%s, %s%s)" % (fn, base, lo, "".join(", " + r for r in rest))
            self.note("R10", t, m.start(), fn)
            t = t[:m.start()] + keep_lines(t[m.start():j + 1], call) + t[j + 1:]

    # R26 D[a..b].copy_from_slice(S) -> slice_copy_into(D, a, b, S)   (a mutable sub-slice loses its length in Verus)
    def r26_copy_into(self, t):
        while True:
            mask = _code_mask(t)
            m = None
            for mm in re.finditer(r"\b([A-Za-z_][A-Za-z_0-9]*)\s*\[([^\[\]]+?)\.\.([^\[\]]+?)\]\s*\.\s*copy_from_slice\s*\(", t):
                if mask[mm.start()]:
                    m = mm
                    break
            if not m:
                return t
            j = find_close(t, m.end() - 1, mask)
            src = t[m.end():j].strip()
            call = "slice_copy_into(%s, %s, %s, %s)" % (m.group(1), m.group(2).strip(), m.group(3).strip(), src)
            self.note("R26", t, m.start())
            t = t[:m.start()] + keep_lines(t[m.start():j + 1], call) + t[j + 1:]

    # R2 let P = match E[..] {   ->   let scrut__k = E[..]; let P = match scrut__k {
    def r2_match_index(self, t):
        k = 0
        while True:
            mask = _code_mask(t)
            m = None
            for mm in re.finditer(r"\blet\s+([A-Za-z_][A-Za-z_0-9]*|\([^)]*\))\s*=\s*match\s+([^{;]*\])\s*\{", t):
                if mask[mm.start()]:
                    m = mm
                    break
            if not m:
                return t
            self.note("R2", t, m.start(), m.group(2).strip())
            repl = "let scrut__%d = %s; let %s = match scrut__%d {" % (k, m.group(2).strip(), m.group(1), k)
            t = t[:m.start()] + keep_lines(m.group(0), repl) + t[m.end():]
            k += 1

    # R4 iterator adapters with a predicate closure -> generated loop helper (predicate copied textually)
    def r4_iter_adapters(self, t, cfg):
        helpers = cfg.get("helpers", {})
        idx = 0
        while True:
            mask = _code_mask(t)
            # form A:  E[a..b] \n .iter() \n .any(|&c| P)
            mA = None
            for mm in re.finditer(r"([A-Za-z_][A-Za-z_0-9\.]*)\s*\[([^\]]*?)\.\.([^\]]*?)\]\s*\.\s*iter\s*\(\s*\)\s*\.\s*(any|all)\s*\(\s*\|\s*&\s*([A-Za-z_][A-Za-z_0-9]*)\s*\|", t):
                if mask[mm.start()]:
                    mA = mm
                    break
            mB = None
            for mm in re.finditer(r"\(\s*([^()]*?)\.\.([^()]*?)\)\s*\.\s*(any|all)\s*\(\s*\|\s*([A-Za-z_][A-Za-z_0-9]*)\s*\|", t):
                if mask[mm.start()]:
                    mB = mm
                    break
            m = mA if (mA and (not mB or mA.start() < mB.start())) else mB
            if not m:
                return t
            # closing paren of .any( ... )
            open_paren = t.rfind("(", 0, m.end())
            # the '(' just before the closure bar
            bar = t.rfind("|", 0, m.end())
            bar0 = t.rfind("|", 0, bar)
            open_paren = t.rfind("(", 0, bar0)
            j = find_close(t, open_paren, mask)
            pred = t[m.end():j].strip()
            name = "%s_%d" % ("any" if (m.group(4) if m is mA else m.group(3)) == "any" else "all", idx)
            hk = name
            if hk not in helpers:
                raise ExtractError("R4: side-car of %s lacks '@helper %s (params)'" % (self.key, hk))
            params, call_args = helpers[hk]
            if m is mA:
                base, lo, hi, kind, var = m.group(1), m.group(2).strip() or "0", m.group(3).strip(), m.group(4), m.group(5)
                body = ("let mut i__ = %s; while i__ < %s { let %s = %s[i__]; if %s(%s) { return %s; } i__ += 1; } %s"
                        % ("lo__", "hi__", var, "s__", "" if kind == "any" else "!", pred,
                           "true" if kind == "any" else "false", "false" if kind == "any" else "true"))
                call = "%s(%s, %s, %s%s)" % (self.helper_fn_name(name), base if base.startswith("&") else "&" + base if False else base, lo, hi,
                                             "".join(", " + a for a in call_args))
                sig_params = "s__: &[u8], lo__: usize, hi__: usize" + ("".join(", " + p for p in params))
            else:
                lo, hi, kind, var = m.group(1).strip(), m.group(2).strip(), m.group(3), m.group(4)
                body = ("let mut %s = lo__; while %s < hi__ { if %s(%s) { return %s; } %s += 1; } %s"
                        % (var, var, "" if kind == "any" else "!", pred,
                           "true" if kind == "any" else "false", var, "false" if kind == "any" else "true"))
                call = "%s(%s, %s%s)" % (self.helper_fn_name(name), lo, hi, "".join(", " + a for a in call_args))
                sig_params = "lo__: usize, hi__: usize" + ("".join(", " + p for p in params))
            self.helpers.append((name, sig_params, body, pred))
            self.note("R4", t, m.start(), "%s: predicate `%s`" % (name, " ".join(pred.split())))
            t = t[:m.start()] + keep_lines(t[m.start():j + 1], call) + t[j + 1:]
            idx += 1

    def helper_fn_name(self, name):
        base = re.sub(r"[^A-Za-z0-9_]", "_", self.key.split("::")[-1])
        return "%s__%s" % (base, name)

    # R5 for (i, &c) in X.iter().enumerate() { B }  /  for &c in X { B }   -> indexed while
    def r5_for_enumerate(self, t):
        while True:
            mask = _code_mask(t)
            m = None
            kind = None
            for mm in re.finditer(r"\bfor\s*\(\s*([A-Za-z_][A-Za-z_0-9]*)\s*,\s*&\s*([A-Za-z_][A-Za-z_0-9]*)\s*\)\s*in\s+([A-Za-z_][A-Za-z_0-9\.]*)\s*\.\s*iter\s*\(\s*\)\s*\.\s*enumerate\s*\(\s*\)\s*\{", t):
                if mask[mm.start()]:
                    m, kind = mm, "enum"
                    break
            if not m:
                for mm in re.finditer(r"\bfor\s*&\s*([A-Za-z_][A-Za-z_0-9]*)\s*in\s+([A-Za-z_][A-Za-z_0-9\.]*)\s*\{", t):
                    if mask[mm.start()]:
                        m, kind = mm, "plain"
                        break
            if not m:
                return t
            ob = m.end() - 1
            cb = find_close(t, ob, mask)
            body = t[ob + 1:cb]
            if re.search(r"\bcontinue\b", body):
                raise ExtractError("R5: loop body contains `continue` in %s" % self.key)
            if kind == "enum":
                i, c, x = m.group(1), m.group(2), m.group(3)
            else:
                c, x = m.group(1), m.group(2)
                i = "idx__"
            head = "let mut %s = 0; while %s < %s.len() {%s let %s = %s[%s];" % (i, i, x, S_IN + "/*@loophead*/" + S_OUT, c, x, i)
            tail = "%s += 1; }" % i
            self.note("R5", t, m.start(), kind)
            t = t[:m.start()] + head + body + tail + t[cb + 1:]

    # R17 for (&a, &b) in X.iter().zip(Y.iter()) { B } -> indexed while
    def r17_zip(self, t):
        while True:
            mask = _code_mask(t)
            m = None
            for mm in re.finditer(r"\bfor\s*\(\s*&\s*([A-Za-z_][A-Za-z_0-9]*)\s*,\s*&\s*([A-Za-z_][A-Za-z_0-9]*)\s*\)\s*in\s+([A-Za-z_][A-Za-z_0-9\.]*)\s*\.\s*iter\s*\(\s*\)\s*\.\s*zip\s*\(\s*([A-Za-z_][A-Za-z_0-9\.]*)\s*\.\s*iter\s*\(\s*\)\s*\)\s*\{", t):
                if mask[mm.start()]:
                    m = mm
                    break
            if not m:
                return t
            ob = m.end() - 1
            cb = find_close(t, ob, mask)
            body = t[ob + 1:cb]
            if re.search(r"\bcontinue\b", body):
                raise ExtractError("R17: loop body contains `continue` in %s" % self.key)
            a, b, x, y = m.groups()
            head = ("let mut k__ = 0; while k__ < %s.len() && k__ < %s.len() {%s let %s = %s[k__]; let %s = %s[k__];"
                    % (x, y, S_IN + "/*@loophead*/" + S_OUT, a, x, b, y))
            tail = "k__ += 1; }"
            self.note("R17", t, m.start())
            t = t[:m.start()] + head + body + tail + t[cb + 1:]

    # R23 for C in X.chunks(N) { B } -> indexed while over [ci__, ce__)
    def r23_chunks(self, t):
        while True:
            mask = _code_mask(t)
            m = None
            for mm in re.finditer(r"\bfor\s+([A-Za-z_][A-Za-z_0-9]*)\s+in\s+([A-Za-z_][A-Za-z_0-9\.]*)\s*\.\s*chunks\s*\(\s*([0-9A-Za-z_]+)\s*\)\s*\{", t):
                if mask[mm.start()]:
                    m = mm
                    break
            if not m:
                return t
            ob = m.end() - 1
            cb = find_close(t, ob, mask)
            body = t[ob + 1:cb]
            if re.search(r"\b(continue|break)\b", body):
                raise ExtractError("R23: loop body contains continue/break in %s" % self.key)
            c, x, n = m.groups()
            head = ("let mut ci__: usize = 0; while ci__ < %s.len() {%s let ce__: usize = if %s.len() - ci__ < %s { %s.len() } else { ci__ + %s }; let %s = &%s[ci__..ce__];"
                    % (x, S_IN + "/*@loophead*/" + S_OUT, x, n, x, n, c, x))
            tail = "ci__ = ce__; }"
            self.note("R23", t, m.start())
            t = t[:m.start()] + head + body + tail + t[cb + 1:]

    # R15 for _ in A..B {  ->  for i__ in iter__: A..B {
    def r15_for_underscore(self, t):
        out, pos = [], 0
        mask = _code_mask(t)
        for m in re.finditer(r"\bfor\s+_\s+in\s+", t):
            if not mask[m.start()]:
                continue
            self.note("R15", t, m.start())
            out.append(t[pos:m.start()])
            out.append("for i__ in iter__: ")
            pos = m.end()
        out.append(t[pos:])
        return "".join(out)

    # R14 |_| -> |_x|
    def r14_closure_underscore(self, t):
        out, pos = [], 0
        mask = _code_mask(t)
        for m in re.finditer(r"\|\s*_\s*\|", t):
            if not mask[m.start()]:
                continue
            self.note("R14", t, m.start())
            out.append(t[pos:m.start()])
            out.append("|_x|")
            pos = m.end()
        out.append(t[pos:])
        return "".join(out)

    # R16 cmp::max(a, b) -> max_usize(a, b)
    def r16_cmp_max(self, t):
        out, pos = [], 0
        mask = _code_mask(t)
        for m in re.finditer(r"\b(std::)?cmp::max\s*\(", t):
            if not mask[m.start()]:
                continue
            self.note("R16", t, m.start())
            out.append(t[pos:m.start()])
            out.append("max_usize(")
            pos = m.end()
        out.append(t[pos:])
        return "".join(out)

    # R18 closure header annotation (side-car driven): |x| BODY -> |x: T| -> (y: U) ensures .. { BODY }
    def r18_closure_headers(self, t, cfg):
        # highest ordinal first, so that the ordinals of the side-car always refer to the closures of the source text
        for (ordinal, header) in sorted(cfg.get("closures", []), key=lambda x: -x[0]):
            mask = _code_mask(t)
            # closures = occurrences of `|ident|` or `||` at code positions preceded by '(' or ','
            cands = []
            for mm in re.finditer(r"(?<=[(,\s])\|\s*([A-Za-z_][A-Za-z_0-9]*(\s*,\s*[A-Za-z_][A-Za-z_0-9]*)*|\([^()|]*\))?\s*\|", t):
                if mask[mm.start()] and t[mm.start():mm.start() + 2] != "||" or (mask[mm.start()] and mm.group(1) is None and t[mm.start():mm.end()].replace(" ", "") == "||" and re.search(r"[(,]\s*$", t[:mm.start()])):
                    cands.append(mm)
            if ordinal < 1 or ordinal > len(cands):
                raise ExtractError("lost anchor: closure %d not found in %s (found %d)" % (ordinal, self.key, len(cands)))
            mm = cands[ordinal - 1]
            # body = up to the closing paren of the enclosing call, or a top-level comma
            k = mm.end()
            depth = 0
            end = None
            while k < len(t):
                if mask[k]:
                    c = t[k]
                    if c in OPEN:
                        depth += 1
                    elif c in CLOSE:
                        if depth == 0:
                            end = k
                            break
                        depth -= 1
                    elif c == "," and depth == 0:
                        end = k
                        break
                k += 1
            if end is None:
                raise ExtractError("R18: cannot delimit closure body in %s" % self.key)
            body = t[mm.end():end]
            b = body.strip()
            if mm.group(1) and mm.group(1).startswith("("):
                # tuple pattern: the annotated header names the parameter t__, the pattern is bound by a let
                b = "{ let %s = t__; %s }" % (mm.group(1), b)
            if b.startswith("{") and find_close(b, 0) == len(b) - 1:
                newc = "%s %s" % (header, b)
            else:
                newc = "%s { %s }" % (header, b)
            self.note("R18", t, mm.start(), "header `%s`" % header)
            t = t[:mm.start()] + S_IN + "/*@closure*/" + S_OUT + keep_lines(t[mm.start():end], newc) + t[end:]
        return t

    # R12 the RNG of ParsedPacket::empty
    def r12_rand(self, t):
        mask = _code_mask(t)
        m = re.search(r"let\s+mut\s+rng\s*=\s*rand::rng\s*\(\s*\)\s*;", t)
        if m and mask[m.start()]:
            self.note("R12", t, m.start())
            t = t[:m.start()] + blank(m.group(0)) + t[m.end():]
            m2 = re.search(r"rng\s*\.\s*random\s*\(\s*\)", t)
            if not m2:
                raise ExtractError("R12: rng.random() not found in %s" % self.key)
            t = t[:m2.start()] + keep_lines(m2.group(0), "any_u16()") + t[m2.end():]
        return t

    # R19 small std idioms without a Verus counterpart (each listed in DESIGN 3.2)
    def r19_misc(self, t):
        subs = [
            (r"\br#gen::", "", "R25 module path prefix `r#gen::` dropped (single-file unit)"),
            (r"\s+as\s+Option<\s*[A-Za-z_][A-Za-z_0-9]*\s*<\s*'_\s*>\s*>", "", "R24 identity cast `as Option<Iter<'_>>` (same type, only spells out a type alias) dropped"),
            (r"\b([A-Za-z_][A-Za-z_0-9]*)\s*\.\s*to_owned\s*\(\s*\)", r"vstd::slice::slice_to_vec(\1)", "R19a slice.to_owned() -> vstd::slice::slice_to_vec(slice)"),
        ]
        for pat, repl, what in subs:
            out, pos = [], 0
            mask = _code_mask(t)
            for m in re.finditer(pat, t):
                if not mask[m.start()]:
                    continue
                self.note("R19", t, m.start(), what)
                out.append(t[pos:m.start()])
                out.append(keep_lines(m.group(0), m.expand(repl)))
                pos = m.end()
            out.append(t[pos:])
            t = "".join(out)
        return t


# --------------------------------------------------------------------------
# contract side-car parsing
# --------------------------------------------------------------------------

class FnContract:
    def __init__(self, key):
        self.key = key
        self.ret = None
        self.spec = ""
        self.prologue = ""
        self.head = ""        # spliced first in the body (hide/reveal headers)
        self.loops = {}       # ordinal -> text
        self.loopends = {}    # ordinal -> text spliced at the end of the loop body
        self.inserts = []     # (where, ordinal, anchor, text)
        self.helpers = {}     # name -> (params list, call args list)
        self.closures = []    # (ordinal, header)
        self.borrow = []
        self.attrs = []
        self.external_body = False
        self.selfname = None
        self.used = False
        self.nclauses = 0


def parse_contracts(path):
    out = {}
    extra = {}    # "@@items <key>" -> text inserted inside a trait/impl block
    cur = None
    section = None
    buf = []

    def flush():
        nonlocal buf, section
        if cur is None or section is None:
            buf = []
            return
        text = "\n".join(buf).rstrip() + "\n" if buf else ""
        kind = section[0]
        if isinstance(cur, FnContract):
            if kind == "spec":
                cur.spec += text
            elif kind == "prologue":
                cur.prologue += text
            elif kind == "head":
                cur.head += text
            elif kind == "loop":
                cur.loops[section[1]] = cur.loops.get(section[1], "") + text
            elif kind == "loopend":
                cur.loopends[section[1]] = cur.loopends.get(section[1], "") + text
            elif kind in ("before", "after"):
                cur.inserts.append((kind, section[1], section[2], text))
        else:
            extra[cur] = extra.get(cur, "") + text
        buf = []

    with open(path) as f:
        for ln, line in enumerate(f, 1):
            line = line.rstrip("\n")
            if line.startswith("@@fn "):
                flush()
                key = line[5:].strip()
                if key in out:
                    raise ExtractError("%s:%d duplicate contract for %s" % (path, ln, key))
                cur = FnContract(key)
                out[key] = cur
                section = None
            elif line.startswith("@@items "):
                flush()
                cur = line[8:].strip()
                section = ("items",)
            elif line.startswith("@") and not line.startswith("@@") and isinstance(cur, FnContract) and re.match(r"@(ret|spec|prologue|head|loopend|loop|before|after|helper|closure|attr|external_body|borrow)\b", line):
                flush()
                m = re.match(r"@(\w+)\s*(.*)$", line)
                d, rest = m.group(1), m.group(2).strip()
                if d == "ret":
                    cur.ret = rest
                    section = None
                elif d == "spec":
                    section = ("spec",)
                elif d == "prologue":
                    section = ("prologue",)
                elif d == "head":
                    section = ("head",)
                elif d == "loop":
                    section = ("loop", int(rest))
                elif d == "loopend":
                    section = ("loopend", int(rest))
                elif d in ("before", "after"):
                    mm = re.match(r'(\d+)\s+"(.*)"\s*$', rest)
                    if not mm:
                        raise ExtractError("%s:%d bad @%s directive" % (path, ln, d))
                    section = (d, int(mm.group(1)), mm.group(2))
                elif d == "helper":
                    mm = re.match(r"(\w+)\s*\((.*)\)\s*(?:<-\s*\((.*)\))?\s*$", rest)
                    if not mm:
                        raise ExtractError("%s:%d bad @helper directive" % (path, ln))
                    params = [p.strip() for p in split_top(mm.group(2)) if p.strip()]
                    args = [p.strip() for p in split_top(mm.group(3) or "") if p.strip()]
                    if not args:
                        args = [p.split(":")[0].strip() for p in params]
                    cur.helpers[mm.group(1)] = (params, args)
                    section = None
                elif d == "closure":
                    mm = re.match(r"(\d+)\s+(.*)$", rest)
                    cur.closures.append((int(mm.group(1)), mm.group(2).strip()))
                    section = None
                elif d == "attr":
                    cur.attrs.append(rest)
                    section = None
                elif d == "borrow":
                    cur.borrow += rest.split()
                    section = None
                elif d == "external_body":
                    cur.external_body = True
                    section = None
            elif line.startswith("//"):
                continue        # comment of the side-car file itself (contract text is always indented)
            else:
                buf.append(line)
    flush()
    for c in out.values():
        c.nclauses = count_clauses(c)
    return out, extra


def count_clauses(c):
    """number of specification clauses (requires/ensures/invariant/decreases/assert) in a contract"""
    n = 0
    for text in [c.spec] + list(c.loops.values()) + list(c.loopends.values()) + [c.prologue] + [i[3] for i in c.inserts]:
        # clauses are separated by top-level commas after a keyword; approximate: count keywords + top-level commas
        t = strip_comments(text)
        n += len(re.findall(r"\b(requires|ensures|invariant|invariant_except_break|decreases|assert)\b", t))
    return n


# --------------------------------------------------------------------------
# function extraction
# --------------------------------------------------------------------------

def sha(s):
    return hashlib.sha256(s.encode()).hexdigest()[:16]


class Extracted:
    def __init__(self):
        self.chunks = []   # (text, relfile or None, first_src_line or None)

    def add_raw(self, text, label=None):
        self.chunks.append((text if text.endswith("\n") else text + "\n", None, None, label))

    def add_src(self, text, rel, first_line):
        self.chunks.append((text if text.endswith("\n") else text + "\n", rel, first_line, None))


def find_loops(text, mask):
    """positions of loop keywords (loop/while/for) in source order, with the index of the body's '{'"""
    res = []
    for m in re.finditer(r"\b(loop|while|for)\b", text):
        if not mask[m.start()]:
            continue
        # skip `for` in `impl X for Y` / HRTB -- not present inside fn bodies
        k = m.end()
        depth = 0
        brace = None
        while k < len(text):
            if mask[k]:
                c = text[k]
                if c in "([":
                    depth += 1
                elif c in ")]":
                    depth -= 1
                elif c == "{" and depth == 0:
                    brace = k
                    break
            k += 1
        if brace is None:
            raise ExtractError("loop without body")
        res.append((m.start(), brace))
    return res


def anchor_regex(anchor):
    parts = [re.escape(p) for p in anchor.split()]
    return re.compile(r"\s*".join(parts))


def extract_fn(sf, owner_item, fn_item, key, contract, log, mode="body"):
    """Return (text_with_sentinels, first_line, helper_texts, info)."""
    src = sf.src
    raw = src[fn_item.start:fn_item.end]
    first_line = sf.line_of(fn_item.start)
    info = {"key": key, "src": "%s:%d-%d" % (sf.rel, first_line, sf.line_of(fn_item.end - 1)), "sha256": sha(raw)}
    text = strip_comments(raw)
    rw = Rewriter(key, sf.rel, first_line, log)
    text = rw.strip_attrs(text)
    cfg = {"helpers": contract.helpers if contract else {}, "closures": contract.closures if contract else [],
           "borrow": contract.borrow if contract else []}
    has_body = fn_item.body is not None
    if has_body:
        text = rw.apply_body(text, cfg)
    mask = _code_mask(text)
    # ---- signature / body split
    if has_body:
        # first '{' at depth 0 (outside parens/brackets/generics) after `fn`
        depth = 0
        ob = None
        k = text.index("fn ")
        while k < len(text):
            if mask[k]:
                c = text[k]
                if c in "([":
                    depth += 1
                elif c in ")]":
                    depth -= 1
                elif c == "{" and depth == 0:
                    ob = k
                    break
            k += 1
        if ob is None:
            raise ExtractError("no body brace in %s" % key)
        cb = find_close(text, ob, mask)
        sig, body, tail = text[:ob], text[ob + 1:cb], text[cb + 1:]
    else:
        semi = text.rstrip().rfind(";")
        sig, body, tail = text[:semi], None, text[semi + 1:]

    # ---- R3: mut params / mut self
    prologue = []
    selfname = "self"
    ps = sig.index("(", sig.index("fn "))
    pe = find_close(sig, ps)
    params = sig[ps + 1:pe]
    newparams = params
    if re.match(r"\s*mut\s+self\b", params):
        log.append({"rule": "R3", "fn": key, "at": "%s:%d" % (sf.rel, first_line), "detail": "mut self"})
        newparams = re.sub(r"^(\s*)mut\s+self\b", r"\1self", newparams, count=1)
        prologue.append("let mut self_ = self;")
        selfname = "self_"
    for m in list(re.finditer(r"\bmut\s+([a-z_][A-Za-z_0-9]*)\s*:", newparams)):
        v = m.group(1)
        log.append({"rule": "R3", "fn": key, "at": "%s:%d" % (sf.rel, first_line), "detail": "mut " + v})
        prologue.append("let mut %s = %s__0;" % (v, v))
    newparams = re.sub(r"\bmut\s+([a-z_][A-Za-z_0-9]*)\s*:", r"\1__0:", newparams)
    sig = sig[:ps + 1] + newparams + sig[pe:]
    if selfname != "self" and body is not None:
        bm = _code_mask(body)
        body = "".join(body[a:b] if not (k == "ident" and body[a:b] == "self" and bm[a]) else "self_" for (k, a, b) in lex(body))

    # ---- named return value
    ret = contract.ret if contract else None
    if ret:
        pe = find_close(sig, sig.index("(", sig.index("fn ")))
        m = re.search(r"->\s*", sig[pe:])
        if not m:
            raise ExtractError("@ret on a function without return type: %s" % key)
        a = pe + m.end()
        mw = re.search(r"\bwhere\b", sig[a:])
        b = a + mw.start() if mw else len(sig)
        rty = sig[a:b].strip()
        sig = sig[:a] + "(%s: %s)" % (ret, rty) + (" " if mw else "") + sig[b:].lstrip(" ") if mw else sig[:a] + "(%s: %s) " % (ret, rty)

    out = sig.rstrip()
    if contract and contract.spec.strip():
        out += "\n" + S_IN + contract.spec.rstrip() + "\n" + S_OUT
    if body is None:
        return out + ";" + tail, first_line, [], info
    if mode == "external" or (contract and contract.external_body):
        attrs = "#[verifier::external_body]\n"
        return S_IN + attrs + S_OUT + out + " { unimplemented!() }" + blank(body) + tail, first_line, [], info

    # ---- splices inside the body
    inserts = []   # (pos, text)
    bm = _code_mask(body)
    if contract:
        loops = find_loops(body, bm)
        for ordinal, ltext in contract.loops.items():
            if ordinal < 1 or ordinal > len(loops):
                raise ExtractError("lost anchor: loop %d of %s (function has %d loops)" % (ordinal, key, len(loops)))
            inserts.append((loops[ordinal - 1][1], "\n" + ltext.rstrip() + "\n"))
        for ordinal, ltext in contract.loopends.items():
            if ordinal < 1 or ordinal > len(loops):
                raise ExtractError("lost anchor: loop %d of %s (function has %d loops)" % (ordinal, key, len(loops)))
            cbr = find_close(body, loops[ordinal - 1][1], bm)
            inserts.append((cbr, "\n" + ltext.rstrip() + "\n"))
        if len(loops) != len(contract.loops) and loops:
            missing = [i + 1 for i in range(len(loops)) if (i + 1) not in contract.loops]
            if missing:
                raise ExtractError("lost anchor: %s has %d loops but the side-car annotates %s" % (key, len(loops), sorted(contract.loops)))
        for where, ordinal, anchor, itext in contract.inserts:
            rx = anchor_regex(anchor)
            hits = [m for m in rx.finditer(body) if bm[m.start()]]
            if ordinal < 1 or ordinal > len(hits):
                raise ExtractError("lost anchor: %r #%d in %s (%d matches)" % (anchor, ordinal, key, len(hits)))
            m = hits[ordinal - 1]
            if where == "before":
                # start of the statement: go back to the previous ';', '{' or '}' at the same depth (start of line is enough for rustfmt code)
                ls = body.rfind("\n", 0, m.start()) + 1
                inserts.append((ls, itext.rstrip() + "\n"))
            else:
                # after the end of the statement: next ';' at depth 0 from the match start, or the matching '}' if it is a block statement
                k = m.start()
                depth = 0
                end = None
                while k < len(body):
                    if bm[k]:
                        c = body[k]
                        if c in OPEN:
                            depth += 1
                        elif c in CLOSE:
                            depth -= 1
                            if depth < 0:
                                break
                        elif c == ";" and depth == 0:
                            end = k + 1
                            break
                    k += 1
                if end is None:
                    # tail expression of a block (unit-typed): `e` becomes `e; <spliced>`
                    e = k
                    while e > 0 and body[e - 1] in " \t\n":
                        e -= 1
                    inserts.append((e, ";\n" + itext.rstrip() + "\n"))
                else:
                    inserts.append((end, "\n" + itext.rstrip() + "\n"))
    inserts.sort(key=lambda x: -x[0])
    for pos, itext in inserts:
        body = body[:pos] + S_IN + itext + S_OUT + body[pos:]
    pro = ""
    if prologue:
        pro += " " + " ".join(prologue)
    cpro = ""
    if contract and contract.prologue.strip():
        cpro = S_IN + "\n" + contract.prologue.rstrip() + "\n" + S_OUT
    attrs = ""
    if contract and contract.attrs:
        attrs = S_IN + "".join(a + "\n" for a in contract.attrs) + S_OUT
    helper_texts = []
    for (name, sig_params, hbody, pred) in rw.helpers:
        helper_texts.append((name, rw.helper_fn_name(name), sig_params, hbody))
    chead = ""
    if contract and contract.head.strip():
        chead = S_IN + "\n" + contract.head.rstrip() + "\n" + S_OUT
    return attrs + out + " {" + chead + pro + cpro + body + "}" + tail, first_line, helper_texts, info


def render_with_map(chunks):
    """chunks: list of (text, rel, first_line). Returns (text, linemap) where linemap[i] = [rel, line] or None for output line i+1."""
    out_lines = []
    linemap = []
    for text, rel, first, label in chunks:
        if rel is None:
            for l in text.replace(S_IN, "").replace(S_OUT, "").split("\n")[:-1]:
                out_lines.append(l)
                linemap.append(None if label is None else [label, None])
            continue
        cur = first
        inside = 0
        line = []
        has_src = False
        for ch in text:
            if ch == S_IN:
                inside += 1
            elif ch == S_OUT:
                inside -= 1
            elif ch == "\n":
                out_lines.append("".join(line))
                linemap.append([rel, cur] if has_src or not inside else [rel, cur, "spliced"])
                if has_src and inside:
                    pass
                line = []
                has_src = False
                if not inside:
                    cur += 1
            else:
                line.append(ch)
                if not inside and ch not in " \t":
                    has_src = True
        if line:
            out_lines.append("".join(line))
            linemap.append([rel, cur])
    return "\n".join(out_lines) + "\n", linemap


DERIVE_KEEP = ("Clone", "Copy", "PartialEq", "Eq")


def extract_type(sf, item, extra_derives=()):
    raw = sf.src[item.start:item.end]
    text = strip_comments(raw)
    derives = []
    mask = _code_mask(text)
    for m in list(re.finditer(r"#\s*\[", text)):
        if not mask[m.start()]:
            continue
        j = find_close(text, m.end() - 1, mask)
        seg = text[m.start():j + 1]
        md = re.match(r"#\s*\[\s*derive\s*\((.*)\)\s*\]", seg, re.S)
        if md:
            for d in md.group(1).split(","):
                d = d.strip()
                if d in DERIVE_KEEP:
                    derives.append(d)
        text = text[:m.start()] + blank(seg) + text[j + 1:]
    if "pubfields" in extra_derives:
        # annotation: private fields are made `pub` so that specifications may mention them (visibility has no run-time meaning)
        ob = text.index("{")
        inner = text[ob + 1:text.rindex("}")]
        inner2 = re.sub(r"(^|\n)(\s*)(?!pub\b)([a-z_][A-Za-z_0-9]*\s*:)", r"\1\2pub \3", inner)
        text = text[:ob + 1] + inner2 + text[text.rindex("}"):]
        text = re.sub(r"(^|\n)(\s*)struct\b", r"\1\2pub struct", text, count=1)
        extra_derives = [d for d in extra_derives if d != "pubfields"]
    derives += [d for d in extra_derives if d not in derives]
    if item.kind == "enum" and "PartialEq" in derives and "Structural" not in derives:
        derives.append("Structural")
    head = ""
    if derives:
        head = S_IN + "#[derive(%s)]\n" % ", ".join(derives) + S_OUT
    # thiserror attributes inside enum bodies were blanked above as attributes
    return head + text, sf.line_of(item.start), {"key": "%s::%s %s" % (sf.rel, item.kind, item.name), "sha256": sha(raw)}


class UnitBuilder:
    def __init__(self, name, unitdef):
        self.name = name
        self.d = unitdef
        self.files = {}
        self.log = []
        self.items = []
        self.contracts = {}
        self.extra = {}
        self.trusted = []
        self.dropped = set()
        for c in unitdef.get("contracts", []):
            flt = None
            if ":" in c:
                c, flt = c.split(":", 1)
            cs, ex = parse_contracts(os.path.join(ROOT, c))
            if flt:
                cs = {k: v for k, v in cs.items() if re.search(flt, k)}
                ex = {}
            for k, v in cs.items():
                if k in self.contracts:
                    raise ExtractError("duplicate contract %s" % k)
                self.contracts[k] = v
            for k, v in ex.items():
                self.extra[k] = self.extra.get(k, "") + v

    def sf(self, rel):
        if rel not in self.files:
            self.files[rel] = SourceFile(os.path.join(REPO, "src", rel), rel)
        return self.files[rel]

    def contract(self, key):
        c = self.contracts.get(key)
        if c:
            c.used = True
        return c

    def emit_fn(self, ex, sf, owner, fn, key, mode):
        c = self.contract(key)
        text, first, helpers, info = extract_fn(sf, owner, fn, key, c, self.log, mode)
        info["mode"] = "trusted-contract" if (mode == "external" or (c and c.external_body)) else "verified"
        info["clauses"] = c.nclauses if c else 0
        self.items.append(info)
        ex.add_src(text, sf.rel, first)
        return helpers

    def emit_helpers(self, ex, helpers, parent_key, in_impl):
        for (name, fname, params, body) in helpers:
            hkey = parent_key + "#" + name
            c = self.contract(hkey)
            sig = "fn %s(%s) -> (r: bool)" % (fname, params)
            spec = ("\n" + c.spec.rstrip() + "\n") if c and c.spec.strip() else "\n"
            loop = (c.loops.get(1, "") if c else "")
            body2 = body.replace("{", "\n" + loop.rstrip() + "\n{", 1) if loop else body
            ex.add_raw("// generated by R4 from %s (predicate copied textually)\n%s%s{ %s }\n" % (parent_key, sig, spec, body2), label="R4 helper of " + parent_key)
            self.items.append({"key": hkey, "src": "generated (R4)", "mode": "verified", "clauses": c.nclauses if c else 0})

    def build(self):
        ex = Extracted()
        ex.add_raw("// GENERATED by tools/extract.py -- unit %s -- do not edit\n#![allow(unused_imports, unused_variables, unused_mut, unused_assignments, dead_code, non_camel_case_types, unused_parens, unreachable_code, unused_braces)]\nuse vstd::prelude::*;\nverus! {\n" % self.name)
        for part in self.d["parts"]:
            kind = part[0]
            if kind == "file":
                with open(os.path.join(ROOT, part[1])) as f:
                    txt = f.read()
                if part[1].startswith("spec/") and self.d.get("modules", True) and "impl " not in strip_comments(txt) and "\nfn " not in txt:
                    # pure specification files become modules: Verus verifies modules in parallel
                    mname = "m_" + re.sub(r"[^a-z0-9]", "_", part[1][5:-3])
                    txt = "pub mod %s {\nuse super::*;\n%s\n}\npub use %s::*;\n" % (mname, txt, mname)
                ex.add_raw("// ---- %s\n%s" % (part[1], txt), label=part[1])
                for m in re.finditer(r"(external_body|assume_specification|\badmit\s*\(|\bassume\s*\()", strip_comments(txt)):
                    pass
            elif kind == "consts":
                sf = self.sf(part[1])
                names = part[2]
                for it in sf.items:
                    if it.kind == "const" and (names == "*" or it.name in names):
                        raw = sf.src[it.start:it.end]
                        text = strip_comments(raw)
                        rw = Rewriter("%s::const %s" % (sf.rel, it.name), sf.rel, sf.line_of(it.start), self.log)
                        text = rw.strip_attrs(text)
                        ex.add_src(text, sf.rel, sf.line_of(it.start))
                        self.items.append({"key": "%s::const %s" % (sf.rel, it.name), "sha256": sha(raw), "mode": "definition"})
                if names != "*":
                    have = {it.name for it in sf.items if it.kind == "const"}
                    for n in names:
                        if n not in have:
                            raise ExtractError("missing const %s in %s" % (n, sf.rel))
            elif kind in ("struct", "enum"):
                sf = self.sf(part[1])
                it = sf.find(kind, part[2])
                text, first, info = extract_type(sf, it, part[3] if len(part) > 3 else ())
                info["mode"] = "definition"
                self.items.append(info)
                ex.add_src(text, sf.rel, first)
            elif kind == "type":
                sf = self.sf(part[1])
                it = sf.find("type", part[2])
                ex.add_src(strip_comments(sf.src[it.start:it.end]), sf.rel, sf.line_of(it.start))
            elif kind in ("impl", "traitimpl", "trait", "inherent_from_traitimpl"):
                sf = self.sf(part[1])
                owner_kind = "trait" if kind == "trait" else "impl"
                own = sf.find(owner_kind, part[2])
                fns = part[3]
                mode = part[4] if len(part) > 4 else "body"
                header = strip_comments(sf.src[own.start:own.header_end])
                rw = Rewriter("%s::%s %s" % (sf.rel, owner_kind, part[2]), sf.rel, sf.line_of(own.start), self.log)
                header = rw.strip_attrs(header)
                if kind == "inherent_from_traitimpl":
                    # R21: a trait method emitted as an inherent method of the same type (same body); needed where Verus's
                    # trait-dictionary termination check sees a cycle impl -> method body -> default method -> impl
                    m = re.match(r"(\s*impl(?:\s*<[^>]*>)?)\s+[A-Za-z_0-9:]+\s+for\s+(.*)$", header.strip(), re.S)
                    if not m:
                        raise ExtractError("R21: cannot relocate %s" % part[2])
                    header = "%s %s" % (m.group(1), m.group(2))
                    self.log.append({"rule": "R21", "fn": "%s::<%s>" % (sf.rel, part[2]), "at": "%s:%d" % (sf.rel, sf.line_of(own.start)), "detail": "methods %s emitted as inherent methods" % (fns,)})
                    kind = "traitimpl"
                    relocated = True
                else:
                    relocated = False
                ex.add_src(header.rstrip() + " {", sf.rel, sf.line_of(own.start))
                okey = "%s::%s %s" % (sf.rel, owner_kind, part[2])
                if okey in self.extra and not relocated:
                    ex.add_raw(self.extra[okey], label="side-car items of " + okey)
                members = [m for m in own.members if m.kind == "fn"]
                if fns != "*":
                    names = {m.name for m in members}
                    for n in fns:
                        if n not in names:
                            # a function that was simply removed (no new function appeared in this block since the pinned tree):
                            # go on without it -- its callers are then judged against what they call now.  Anything else
                            # (a rename, a new function) cannot be followed by name and is undecided.
                            pinned = set(PINNED.get(sf.rel, {}).get("%s %s" % (owner_kind, part[2]), []))
                            if pinned and names <= pinned:
                                self.log.append({"rule": "missing-fn", "fn": "%s::%s::%s" % (sf.rel, part[2], n), "at": sf.rel, "detail": "function no longer exists; skipped with its contract"})
                                self.dropped.add(n)
                                continue
                            raise ExtractError("missing fn %s in %s of %s" % (n, part[2], sf.rel))
                pending_helpers = []
                for m in members:
                    if fns != "*" and m.name not in fns:
                        continue
                    if kind == "impl":
                        key = "%s::%s::%s" % (sf.rel, part[2], m.name)
                    elif kind == "trait":
                        key = "%s::trait %s::%s" % (sf.rel, part[2], m.name)
                    else:
                        key = "%s::<%s>::%s" % (sf.rel, part[2], m.name)
                    fmode = mode
                    if isinstance(mode, dict):
                        fmode = mode.get(m.name, "body")
                    hs = self.emit_fn(ex, sf, own, m, key, fmode)
                    if hs:
                        pending_helpers.append((hs, key))
                # assoc types/consts of trait impls are not present in this code base
                ex.add_raw("}\n")
                for hs, key in pending_helpers:
                    self.emit_helpers(ex, hs, key, False)
            elif kind == "fn":
                sf = self.sf(part[1])
                it = sf.find("fn", part[2])
                key = "%s::%s" % (sf.rel, part[2])
                mode = part[3] if len(part) > 3 else "body"
                hs = self.emit_fn(ex, sf, None, it, key, mode)
                if hs:
                    self.emit_helpers(ex, hs, key, False)
            elif kind == "raw":
                ex.add_raw(part[1])
            else:
                raise ExtractError("unknown part kind %s" % kind)
        ex.add_raw("} // verus!\nfn main() {}\n")
        unused = [k for k, c in self.contracts.items() if not c.used and k.split("::")[-1].split("#")[0] not in self.dropped]
        if unused:
            raise ExtractError("lost anchor: contracts without a function: %s" % ", ".join(unused))
        text, linemap = render_with_map(ex.chunks)
        return text, linemap


def scan_assumptions(text):
    """every external_body / assume_specification / assume / admit in the generated text"""
    res = []
    t = strip_comments(text)
    lines = t.split("\n")
    for i, l in enumerate(lines):
        for m in re.finditer(r"(#\[verifier::external_body\]|#\[verifier::external\]|assume_specification|\badmit\s*\(|\bassume\s*\(|#\[verifier::external_type_specification\]|#\[verifier::external_trait_specification\])", l):
            # describe by the next fn/struct name
            ctx = " ".join(lines[i:i + 4])
            mm = re.search(r"(?:fn|struct|trait)\s+([A-Za-z_0-9]+)|\[\s*([^\]]+?)\s*\]", ctx[m.end() - len(l) if False else 0:])
            nm = re.search(r"assume_specification\s*(?:<[^>]*>)?\s*\[\s*([^\]]+?)\s*\]", ctx)
            if "assume_specification" in m.group(1) and nm:
                res.append("assume_specification[%s]" % " ".join(nm.group(1).split()))
            else:
                fm = re.search(r"\bfn\s+([A-Za-z_0-9]+)|\bstruct\s+([A-Za-z_0-9]+)", ctx)
                res.append("%s %s" % (m.group(1), (fm.group(1) or fm.group(2)) if fm else "line %d" % (i + 1)))
    return res


def build_unit(name, outdir=None):
    sys.path.insert(0, ROOT)
    import units
    import importlib
    importlib.reload(units)
    ud = units.UNITS[name]
    ub = UnitBuilder(name, ud)
    text, linemap = ub.build()
    outdir = outdir or os.path.join(ROOT, "build")
    os.makedirs(outdir, exist_ok=True)
    path = os.path.join(outdir, name + ".rs")
    with open(path, "w") as f:
        f.write(text)
    meta = {
        "unit": name,
        "linemap": linemap,
        "rewrites": ub.log,
        "items": ub.items,
        "assumptions": scan_assumptions(text),
        "flags": ud.get("flags", []),
        "rlimit": ud.get("rlimit"),
    }
    with open(os.path.join(outdir, name + ".map.json"), "w") as f:
        json.dump(meta, f)
    return path, meta


if __name__ == "__main__":
    try:
        for u in sys.argv[1:]:
            p, meta = build_unit(u)
            print("%s: %d items, %d rewrites, %d assumptions" % (p, len(meta["items"]), len(meta["rewrites"]), len(meta["assumptions"])))
    except ExtractError as e:
        print("EXTRACT-ERROR: %s" % e)
        sys.exit(2)
