"""Unit definitions: which items of /repo/src go into which generated Verus file (DESIGN.md 3.1)."""

COMMON_HEAD = [
    ("file", "prelude/common.rs"),
    ("enum", "errors.rs", "DSError", ["Debug"]),
    ("consts", "constants.rs", "*"),
    ("enum", "constants.rs", "Class"),
    ("traitimpl", "constants.rs", "From<Class> for u16", "*"),
    ("enum", "constants.rs", "Type"),
    ("traitimpl", "constants.rs", "From<Type> for u16", "*"),
    ("enum", "constants.rs", "Section"),
    ("file", "prelude/enums.rs"),
    ("file", "spec/bytes.rs"),
]

U3_FNS_PP = ["packet", "packet_mut", "tid", "set_tid", "flags", "set_flags", "dnssec", "is_response",
             "set_response", "rcode", "set_rcode", "opcode", "set_opcode", "max_payload"]
U3_FNS_DS = ["is_response", "set_response", "qdcount", "set_qdcount", "ancount", "set_ancount",
             "nscount", "set_nscount", "arcount", "set_arcount"]

HEAD2 = [("raw", "use std::mem;\nuse std::marker;\nuse std::cmp;\nuse std::net::{IpAddr, Ipv4Addr, Ipv6Addr};\n")] + COMMON_HEAD + [
    ("file", "prelude/std_specs.rs"),
    ("file", "prelude/net.rs"),
    ("file", "spec/wire.rs"),
]

UNITS = {
    "U1": {
        "title": "validator (C01, C02, C18, parse part of C04)",
        "flags": [], "rlimit": 60,
        "contracts": ["contracts/U3.contract:dns_sector.rs::DNSSector::(is_response|qdcount|ancount|nscount|arcount)$", "contracts/U1.contract"],
        "parts": HEAD2 + [
            ("struct", "parsed_packet.rs", "ParsedPacket"),
            ("struct", "dns_sector.rs", "DNSSector"),
            ("struct", "compress.rs", "Compress"),
            ("file", "spec/ds.rs"),
            ("impl", "compress.rs", "Compress", ["check_compressed_name"]),
            ("impl", "dns_sector.rs", "DNSSector", [
                "into_packet", "is_response", "qdcount", "ancount", "nscount", "arcount",
                "remaining_len", "ensure_remaining_len", "set_offset", "increment_offset", "u8_load", "be16_load", "be32_load",
                "check_compressed_name", "skip_name", "rr_type", "rr_class", "rr_ttl", "rr_rdlen", "ensure_in_class", "new", "parse",
                "parse_question", "parse_rr", "edns_remaining_len", "edns_ensure_remaining_len", "edns_increment_offset",
                "edns_be16_load", "edns_be32_load", "edns_rr_code", "edns_rr_rdlen", "edns_skip_rr", "opt_rr_max_payload",
                "opt_rr_ext_rcode", "opt_rr_edns_version", "opt_rr_edns_ext_flags", "opt_rr_rdlen", "parse_opt", "check_uncompressed_name"]),
            ("file", "spec/linear.rs"),
        ],
    },
    "U2": {
        "title": "readers (C03, question getters of C04)",
        "flags": [], "rlimit": 60,
        "contracts": ["contracts/U3.contract:(dns_sector.rs::DNSSector::(is_response|qdcount|ancount|nscount|arcount)|parsed_packet.rs::ParsedPacket::(packet|packet_mut))$", "contracts/U2.contract", "contracts/U2n.contract", "contracts/U2a.contract", "contracts/U2q.contract"],
        "parts": HEAD2 + [
            ("struct", "parsed_packet.rs", "ParsedPacket"),
            ("struct", "dns_sector.rs", "DNSSector"),
            ("struct", "compress.rs", "Compress"),
            ("struct", "rr_iterator.rs", "RRRaw"),
            ("struct", "rr_iterator.rs", "RRIterator"),
            ("struct", "response_iterator.rs", "ResponseIterator", ["pubfields"]),
            ("struct", "question_iterator.rs", "QuestionIterator", ["pubfields"]),
            ("struct", "edns_iterator.rs", "EdnsIterator", ["pubfields"]),
            ("type", "response_iterator.rs", "AnswerIterator"),
            ("type", "response_iterator.rs", "NameServersIterator"),
            ("type", "response_iterator.rs", "AdditionalIterator"),
            ("enum", "rr_iterator.rs", "RawRRData"),
            ("struct", "compress.rs", "UncompressedNameResult"),
            ("file", "spec/pp_basic.rs"),
            ("file", "spec/ds.rs"),
            ("file", "spec/names.rs"),
            ("file", "spec/locality.rs"),
            ("file", "spec/reader.rs"),
            ("file", "spec/iter.rs"),
            ("impl", "compress.rs", "Compress", ["copy_uncompressed_name", "raw_name_len", "raw_name_len_after_decompression", "raw_name_to_str"]),
            ("impl", "dns_sector.rs", "DNSSector", ["is_response", "qdcount", "ancount", "nscount", "arcount"]),
            ("impl", "rr_iterator.rs", "RRIterator", ["new", "recompute", "skip_name", "rr_rdlen", "skip_rdata", "skip_rr", "edns_rr_rdlen", "edns_skip_rr"]),
            ("trait", "rr_iterator.rs", "DNSIterable", ["offset", "offset_next", "is_tombstone", "raw", "parsed_packet", "packet", "name_slice", "rdata_slice"]),
            ("trait", "rr_iterator.rs", "TypedIterable", ["name", "copy_raw_name", "current_section", "rr_type", "rr_class"]),
            ("trait", "rr_iterator.rs", "RdataIterable", ["rr_ttl", "rr_rdlen", "rr_rd", "rr_ip"]),
            ("traitimpl", "response_iterator.rs", "TypedIterable for ResponseIterator", "*"),
            ("traitimpl", "response_iterator.rs", "RdataIterable for ResponseIterator", "*"),
            ("traitimpl", "response_iterator.rs", "DNSIterable for ResponseIterator", ["offset", "offset_next", "raw", "parsed_packet"]),
            ("impl", "response_iterator.rs", "ResponseIterator", "*"),
            ("inherent_from_traitimpl", "response_iterator.rs", "DNSIterable for ResponseIterator", ["next"]),
            ("traitimpl", "question_iterator.rs", "TypedIterable for QuestionIterator", "*"),
            ("traitimpl", "question_iterator.rs", "DNSIterable for QuestionIterator", ["offset", "offset_next", "raw", "parsed_packet"]),
            ("impl", "question_iterator.rs", "QuestionIterator", "*"),
            ("inherent_from_traitimpl", "question_iterator.rs", "DNSIterable for QuestionIterator", ["next"]),
            ("traitimpl", "edns_iterator.rs", "DNSIterable for EdnsIterator", ["offset", "offset_next", "raw", "parsed_packet"]),
            ("impl", "edns_iterator.rs", "EdnsIterator", "*"),
            ("inherent_from_traitimpl", "edns_iterator.rs", "DNSIterable for EdnsIterator", ["next"]),
            ("impl", "parsed_packet.rs", "ParsedPacket", ["packet", "packet_mut", "into_iter_question", "into_iter_answer", "into_iter_nameservers",
                                                          "into_iter_additional", "into_iter_additional_including_opt", "into_iter_edns", "copy_header", "copy_raw_edns_section",
                                                          "question_raw0", "question_raw", "question", "qtype_qclass"]),
            ("file", "spec/clients_u2.rs"),
        ],
    },
    "U6": {
        "title": "decompression (C05)",
        "flags": ["--no-lifetime"], "rlimit": 100, "modules": True,
        "contracts": ["contracts/U3.contract:(dns_sector.rs::DNSSector::(is_response|qdcount|ancount|nscount|arcount)|parsed_packet.rs::ParsedPacket::(packet|packet_mut))$", "contracts/U2.contract", "contracts/U2n.contract", "contracts/U2a.contract", "contracts/U2q.contract", "contracts/U6.contract", "contracts/U1.contract:dns_sector.rs::DNSSector::(new|parse)$"],
        "parts": HEAD2 + [
            ("struct", "parsed_packet.rs", "ParsedPacket"),
            ("struct", "dns_sector.rs", "DNSSector"),
            ("struct", "compress.rs", "Compress"),
            ("struct", "rr_iterator.rs", "RRRaw"),
            ("struct", "rr_iterator.rs", "RRIterator"),
            ("struct", "response_iterator.rs", "ResponseIterator", ["pubfields"]),
            ("struct", "question_iterator.rs", "QuestionIterator", ["pubfields"]),
            ("struct", "edns_iterator.rs", "EdnsIterator", ["pubfields"]),
            ("type", "response_iterator.rs", "AnswerIterator"),
            ("type", "response_iterator.rs", "NameServersIterator"),
            ("type", "response_iterator.rs", "AdditionalIterator"),
            ("enum", "rr_iterator.rs", "RawRRData"),
            ("struct", "compress.rs", "UncompressedNameResult"),
            ("file", "spec/pp_basic.rs"),
            ("file", "spec/ds.rs"),
            ("file", "spec/names.rs"),
            ("file", "spec/locality.rs"),
            ("file", "spec/reader.rs"),
            ("file", "spec/iter.rs"),
            ("file", "spec/uncompress.rs"),
            ("file", "spec/pfpacket.rs"),
            ("file", "spec/pfedit_names.rs"),
            ("file", "spec/pfedit.rs"),
            ("impl", "compress.rs", "Compress", ["copy_uncompressed_name", "raw_name_len", "raw_name_len_after_decompression", "raw_name_to_str", "uncompress_rdata"]),
            ("file", "spec/clients_u2.rs"),
            ("impl", "dns_sector.rs", "DNSSector", ["is_response", "qdcount", "ancount", "nscount", "arcount"]),
            ("impl", "dns_sector.rs", "DNSSector", ["new", "parse"], "external"),
            ("impl", "rr_iterator.rs", "RRIterator", ["new", "recompute", "skip_name", "rr_rdlen", "skip_rdata", "skip_rr", "edns_rr_rdlen", "edns_skip_rr"]),
            ("trait", "rr_iterator.rs", "DNSIterable", ["offset", "offset_next", "is_tombstone", "raw", "parsed_packet", "packet", "name_slice", "rdata_slice"]),
            ("trait", "rr_iterator.rs", "TypedIterable", ["name", "copy_raw_name", "current_section", "rr_type", "rr_class"]),
            ("trait", "rr_iterator.rs", "RdataIterable", ["rr_ttl", "rr_rdlen", "rr_rd", "rr_ip"]),
            ("traitimpl", "response_iterator.rs", "TypedIterable for ResponseIterator", "*"),
            ("traitimpl", "response_iterator.rs", "RdataIterable for ResponseIterator", "*"),
            ("traitimpl", "response_iterator.rs", "DNSIterable for ResponseIterator", ["offset", "offset_next", "raw", "parsed_packet"]),
            ("impl", "response_iterator.rs", "ResponseIterator", "*"),
            ("inherent_from_traitimpl", "response_iterator.rs", "DNSIterable for ResponseIterator", ["next"]),
            ("traitimpl", "question_iterator.rs", "TypedIterable for QuestionIterator", "*"),
            ("traitimpl", "question_iterator.rs", "DNSIterable for QuestionIterator", ["offset", "offset_next", "raw", "parsed_packet"]),
            ("impl", "question_iterator.rs", "QuestionIterator", "*"),
            ("inherent_from_traitimpl", "question_iterator.rs", "DNSIterable for QuestionIterator", ["next"]),
            ("traitimpl", "edns_iterator.rs", "DNSIterable for EdnsIterator", ["offset", "offset_next", "raw", "parsed_packet"]),
            ("impl", "edns_iterator.rs", "EdnsIterator", "*"),
            ("inherent_from_traitimpl", "edns_iterator.rs", "DNSIterable for EdnsIterator", ["next"]),
            ("impl", "parsed_packet.rs", "ParsedPacket", ["packet", "packet_mut", "into_iter_question", "into_iter_answer", "into_iter_nameservers",
                                                          "into_iter_additional", "into_iter_additional_including_opt", "into_iter_edns", "copy_header", "copy_raw_edns_section",
                                                          "question_raw0", "question_raw", "question", "qtype_qclass"]),
            ("impl", "compress.rs", "Compress", ["uncompress_with_previous_offset", "uncompress"]),
        ],
    },
    "U4": {
        "title": "host names text -> wire (C14)",
        "flags": [], "rlimit": 60,
        "contracts": ["contracts/U4.contract"],
        "parts": HEAD2 + [
            ("file", "spec/names.rs"),
            ("file", "spec/locality.rs"),
            ("file", "spec/text.rs"),
            ("fn", "synth/gen.rs", "copy_raw_name_from_str"),
            ("fn", "synth/gen.rs", "raw_name_from_str"),
        ],
    },
    "U5": {
        "title": "record builders (C13)",
        "flags": [], "rlimit": 60,
        "contracts": ["contracts/U4.contract", "contracts/U5.contract"],
        "parts": HEAD2 + [
            ("file", "spec/names.rs"),
            ("file", "spec/locality.rs"),
            ("file", "spec/text.rs"),
            ("struct", "synth/gen.rs", "RRHeader"),
            ("struct", "synth/gen.rs", "RR", ["pubfields"]),
            ("file", "spec/rrwire.rs"),
            ("fn", "synth/gen.rs", "copy_raw_name_from_str"),
            ("fn", "synth/gen.rs", "raw_name_from_str"),
            ("impl", "synth/gen.rs", "RR", ["new", "new_question", "rdata"]),
            ("struct", "synth/gen.rs", "A"), ("impl", "synth/gen.rs", "A", "*"),
            ("struct", "synth/gen.rs", "AAAA"), ("impl", "synth/gen.rs", "AAAA", "*"),
            ("struct", "synth/gen.rs", "NS"), ("impl", "synth/gen.rs", "NS", "*"),
            ("struct", "synth/gen.rs", "CNAME"), ("impl", "synth/gen.rs", "CNAME", "*"),
            ("struct", "synth/gen.rs", "PTR"), ("impl", "synth/gen.rs", "PTR", "*"),
            ("struct", "synth/gen.rs", "TXT"), ("impl", "synth/gen.rs", "TXT", "*"),
            ("struct", "synth/gen.rs", "MX"), ("impl", "synth/gen.rs", "MX", "*"),
            ("struct", "synth/gen.rs", "SOA"), ("impl", "synth/gen.rs", "SOA", "*"),
            ("struct", "synth/gen.rs", "DS"), ("impl", "synth/gen.rs", "DS", "*"),
        ],
    },
    "U7": {
        "title": "compression (C06)",
        "flags": [], "rlimit": 100,
        "contracts": ["contracts/U7.contract", "contracts/U2n.contract:compress.rs::Compress::(raw_name_len|raw_name_len_after_decompression)$"],
        "parts": HEAD2 + [
            ("struct", "compress.rs", "Compress"),
            ("struct", "compress.rs", "CompressedNameResult"),
            ("consts", "compress.rs", ["MAX_SUFFIX_LEN", "MAX_SUFFIXES"]),
            ("struct", "rr_iterator.rs", "RRRaw"),
            ("struct", "compress.rs", "Suffix", ["pubfields"]),
            ("struct", "compress.rs", "SuffixDict", ["pubfields", "Default"]),
            ("traitimpl", "compress.rs", "Default for Suffix", "*"),
            ("file", "spec/names.rs"),
            ("file", "spec/locality.rs"),
            ("file", "spec/rename.rs"),
            ("file", "spec/pfedit_names.rs"),
            ("file", "spec/dict.rs"),
            ("impl", "compress.rs", "Compress", ["raw_name_len", "raw_name_len_after_decompression", "indirections", "copy_compressed_name_with_base_offset", "copy_compressed_name", "compress_rdata"]),
            ("impl", "compress.rs", "SuffixDict", "*"),
        ],
    },
    "U8": {
        "title": "renaming (C07)",
        "flags": [], "rlimit": 60,
        "contracts": ["contracts/U8.contract"],
        "parts": HEAD2 + [
            ("struct", "renamer.rs", "Renamer"),
            ("file", "spec/rename.rs"),
            ("impl", "renamer.rs", "Renamer", ["replace_raw"]),
        ],
    },
    "U3": {
        "title": "header bits (C12, header part of C04)",
        "flags": [],
        "contracts": ["contracts/U3.contract"],
        "parts": COMMON_HEAD + [
            ("struct", "parsed_packet.rs", "ParsedPacket"),
            ("struct", "dns_sector.rs", "DNSSector"),
            ("file", "spec/pp_basic.rs"),
            ("impl", "dns_sector.rs", "DNSSector", U3_FNS_DS),
            ("impl", "parsed_packet.rs", "ParsedPacket", U3_FNS_PP),
            ("file", "spec/clients_u3.rs"),
        ],
    },
}


# U7 = everything of U6 (readers, validator contract, decompressor) + the suffix dictionary and the compressor
_u6 = UNITS["U6"]
_u7_old = UNITS["U7"]
_extra_types = [("struct", "compress.rs", "CompressedNameResult"), ("consts", "compress.rs", ["MAX_SUFFIX_LEN", "MAX_SUFFIXES"]),
                ("struct", "compress.rs", "Suffix", ["pubfields"]), ("struct", "compress.rs", "SuffixDict", ["pubfields", "Default"]),
                ("traitimpl", "compress.rs", "Default for Suffix", "*"), ("file", "spec/rename.rs"), ("file", "spec/dict.rs"), ("file", "spec/ptr.rs"), ("file", "spec/cacc.rs"), ("file", "spec/crt.rs")]
_parts = []
for _p in _u6["parts"]:
    _parts.append(_p)
    if _p == ("file", "spec/pfedit.rs"):
        _parts.extend(_extra_types)
_parts += [("impl", "compress.rs", "Compress", ["indirections", "copy_compressed_name_with_base_offset", "copy_compressed_name", "compress_rdata", "compress"]),
           ("impl", "compress.rs", "SuffixDict", "*"), ("file", "spec/clients_u7.rs")]
UNITS["U7"] = {
    "title": "compression (C06)",
    "flags": ["--no-lifetime"], "rlimit": 100,
    "contracts": _u6["contracts"] + ["contracts/U7.contract"],
    "parts": _parts,
}


# U8 = U7 (readers, compressor) + the renamer
_u7 = UNITS["U7"]
_p8 = list(_u7["parts"]) + [("file", "spec/racc.rs"), ("struct", "renamer.rs", "Renamer"), ("impl", "renamer.rs", "Renamer", ["replace_raw", "copy_with_replaced_name", "rename_question_section", "rename_response_section", "rename_answer_section", "rename_nameservers_section", "rename_additional_section", "rename_with_raw_names"]),
                             ("impl", "parsed_packet.rs", "ParsedPacket", ["into_packet", "rename_with_raw_names"])]
UNITS["U8"] = {
    "title": "renaming (C07)",
    "flags": ["--no-lifetime"], "rlimit": 100,
    "contracts": _u7["contracts"] + ["contracts/U8.contract"],
    "parts": _p8,
}


# U9 = U6 (readers, validator contract, decompressor) + the mutating operations
_MUTP = ["set_offset", "set_offset_next", "invalidate", "recompute_rr", "recompute_sections", "raw_mut", "parsed_packet_mut"]
_MUTT = ["resize_rr", "set_raw_name", "delete"]
_p9 = []
for _p in UNITS["U6"]["parts"]:
    if _p[0] == "trait" and _p[2] == "DNSIterable":
        _p = ("trait", _p[1], _p[2], list(_p[3]) + _MUTP + ["rdata_slice_mut", "uncompress"])
    elif _p[0] == "trait" and _p[2] == "RdataIterable":
        _p = ("trait", _p[1], _p[2], list(_p[3]) + ["set_rr_ttl", "set_rr_ip"])
    elif _p[0] == "trait" and _p[2] == "TypedIterable":
        _p = ("trait", _p[1], _p[2], list(_p[3]) + _MUTT)
    elif _p[0] == "traitimpl" and _p[2].startswith("DNSIterable for "):
        _p = ("traitimpl", _p[1], _p[2], list(_p[3]) + _MUTP)
    elif _p == ("impl", "compress.rs", "Compress", ["uncompress_with_previous_offset", "uncompress"]):
        # verified in U6; taken by contract here (a trait default method may not call a function whose body uses an impl of that trait)
        _p = ("impl", "compress.rs", "Compress", ["uncompress_with_previous_offset", "uncompress"], "external")
    elif _p[0] == "struct" and _p[2] == "RRRaw":
        _p9.append(_p)
        _p = ("struct", "rr_iterator.rs", "RRRawMut")
    _p9.append(_p)
    if _p == ("file", "spec/pfedit.rs"):
        _p9.append(("file", "spec/mutate.rs"))
        _p9.append(("file", "spec/pfmut.rs"))
        _p9.append(("file", "spec/pfmut_ops.rs"))
        _p9.append(("file", "spec/iter_mut.rs"))
        _p9.append(("file", "spec/pfbmap.rs"))
        _p9.append(("file", "spec/pfedns.rs"))
        _p9.append(("file", "spec/pfmut_q.rs"))
        _p9.append(("file", "spec/walk.rs"))
        _p9.append(("file", "spec/pfmut_f.rs"))
    if _p[0] == "struct" and _p[2] == "ParsedPacket":
        pass
_p9 += [("impl", "compress.rs", "Compress", ["check_compressed_name"], "external"),
        # header setters: verified in U3, used by contract in the client that composes them with the object invariant
        ("impl", "parsed_packet.rs", "ParsedPacket", ["set_tid", "set_flags", "set_rcode", "set_opcode", "set_response"], "external"), ("struct", "synth/gen.rs", "RR", ["pubfields"]), ("impl", "dns_sector.rs", "DNSSector", ["set_qdcount", "set_ancount", "set_nscount", "set_arcount"]),
        ("impl", "parsed_packet.rs", "ParsedPacket", ["into_packet", "rrcount_inc", "rrcount_dec", "insertion_offset", "recompute", "insert_rr"])]
_p9.append(("file", "spec/clients_u9.rs"))
# the packet-level functions must come before the traits that call them: order is irrelevant in Rust, so this is fine
UNITS["U9"] = {
    "title": "mutating operations (C08, C09, C10, C11)",
    "flags": ["--no-lifetime"], "rlimit": 100,
    "contracts": UNITS["U6"]["contracts"] + ["contracts/U3.contract:dns_sector.rs::DNSSector::set_(qdcount|ancount|nscount|arcount)$", "contracts/U1.contract:compress.rs::Compress::check_compressed_name$", "contracts/U3.contract:parsed_packet.rs::ParsedPacket::set_(tid|flags|rcode|opcode|response)$", "contracts/U9.contract", "contracts/U9t.contract"],
    "parts": _p9,
}
