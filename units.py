"""Unit definitions: which items of /repo/src go into which generated Verus file (DESIGN.md 3.1)."""

COMMON_HEAD = [
    ("file", "prelude/common.rs"),
    ("enum", "errors.rs", "DSError"),
    ("consts", "constants.rs", "*"),
    ("enum", "constants.rs", "Class"),
    ("traitimpl", "constants.rs", "From<Class> for u16", "*"),
    ("enum", "constants.rs", "Type"),
    ("traitimpl", "constants.rs", "From<Type> for u16", "*"),
    ("enum", "constants.rs", "Section"),
    ("file", "prelude/enums.rs"),
    ("file", "spec/bytes.rs"),
]

U3_FNS_PP = ["packet", "packet_mut", "tid", "set_tid", "flags", "set_flags", "dnssec", "is_response",
             "set_response", "rcode", "set_rcode", "opcode", "set_opcode", "max_payload"]
U3_FNS_DS = ["is_response", "set_response", "qdcount", "set_qdcount", "ancount", "set_ancount",
             "nscount", "set_nscount", "arcount", "set_arcount"]

UNITS = {
    "U3": {
        "title": "header bits (C12, header part of C04)",
        "flags": [],
        "contracts": ["contracts/U3.contract"],
        "parts": COMMON_HEAD + [
            ("struct", "parsed_packet.rs", "ParsedPacket"),
            ("struct", "dns_sector.rs", "DNSSector"),
            ("file", "spec/pp_basic.rs"),
            ("impl", "dns_sector.rs", "DNSSector", U3_FNS_DS),
            ("impl", "parsed_packet.rs", "ParsedPacket", U3_FNS_PP),
            ("file", "spec/clients_u3.rs"),
        ],
    },
}
