"""Unit definitions: which items of /repo/src go into which generated Verus file (DESIGN.md 3.1)."""

COMMON_HEAD = [
    ("file", "prelude/common.rs"),
    ("enum", "errors.rs", "DSError"),
    ("consts", "constants.rs", "*"),
    ("enum", "constants.rs", "Class"),
    ("traitimpl", "constants.rs", "From<Class> for u16", "*"),
    ("enum", "constants.rs", "Type"),
    ("traitimpl", "constants.rs", "From<Type> for u16", "*"),
    ("enum", "constants.rs", "Section"),
    ("file", "prelude/enums.rs"),
    ("file", "spec/bytes.rs"),
]

U3_FNS_PP = ["packet", "packet_mut", "tid", "set_tid", "flags", "set_flags", "dnssec", "is_response",
             "set_response", "rcode", "set_rcode", "opcode", "set_opcode", "max_payload"]
U3_FNS_DS = ["is_response", "set_response", "qdcount", "set_qdcount", "ancount", "set_ancount",
             "nscount", "set_nscount", "arcount", "set_arcount"]

HEAD2 = [("raw", "use std::mem;\nuse std::marker;\nuse std::cmp;\n")] + COMMON_HEAD + [
    ("file", "prelude/std_specs.rs"),
    ("file", "spec/wire.rs"),
]

UNITS = {
    "U1": {
        "title": "validator (C01, C02, C18, parse part of C04)",
        "flags": [], "rlimit": 60,
        "contracts": ["contracts/U3.contract:dns_sector.rs::DNSSector::(is_response|qdcount|ancount|nscount|arcount)$", "contracts/U1.contract"],
        "parts": HEAD2 + [
            ("struct", "parsed_packet.rs", "ParsedPacket"),
            ("struct", "dns_sector.rs", "DNSSector"),
            ("struct", "compress.rs", "Compress"),
            ("file", "spec/ds.rs"),
            ("impl", "compress.rs", "Compress", ["check_compressed_name"]),
            ("impl", "dns_sector.rs", "DNSSector", [
                "into_packet", "is_response", "qdcount", "ancount", "nscount", "arcount",
                "remaining_len", "ensure_remaining_len", "set_offset", "increment_offset", "u8_load", "be16_load", "be32_load",
                "check_compressed_name", "skip_name", "rr_type", "rr_class", "rr_ttl", "rr_rdlen", "ensure_in_class", "new", "parse",
                "parse_question", "parse_rr", "edns_remaining_len", "edns_ensure_remaining_len", "edns_increment_offset",
                "edns_be16_load", "edns_be32_load", "edns_rr_code", "edns_rr_rdlen", "edns_skip_rr", "opt_rr_max_payload",
                "opt_rr_ext_rcode", "opt_rr_edns_version", "opt_rr_edns_ext_flags", "opt_rr_rdlen", "parse_opt", "check_uncompressed_name"]),
            ("file", "spec/linear.rs"),
        ],
    },
    "U2": {
        "title": "readers (C03, question getters of C04)",
        "flags": [], "rlimit": 60,
        "contracts": ["contracts/U3.contract:(dns_sector.rs::DNSSector::(is_response|qdcount|ancount|nscount|arcount)|parsed_packet.rs::ParsedPacket::(packet|packet_mut))$", "contracts/U2.contract"],
        "parts": HEAD2 + [
            ("struct", "parsed_packet.rs", "ParsedPacket"),
            ("struct", "dns_sector.rs", "DNSSector"),
            ("struct", "compress.rs", "Compress"),
            ("struct", "rr_iterator.rs", "RRRaw"),
            ("struct", "rr_iterator.rs", "RRIterator"),
            ("struct", "response_iterator.rs", "ResponseIterator", ["pubfields"]),
            ("file", "spec/pp_basic.rs"),
            ("file", "spec/ds.rs"),
            ("file", "spec/reader.rs"),
            ("file", "spec/iter.rs"),
            ("impl", "dns_sector.rs", "DNSSector", ["is_response", "qdcount", "ancount", "nscount", "arcount"]),
            ("impl", "parsed_packet.rs", "ParsedPacket", ["packet", "packet_mut"]),
            ("impl", "rr_iterator.rs", "RRIterator", ["new", "recompute", "skip_name", "rr_rdlen", "skip_rdata", "skip_rr", "edns_rr_rdlen", "edns_skip_rr"]),
            ("trait", "rr_iterator.rs", "DNSIterable", ["offset", "offset_next", "is_tombstone", "raw", "parsed_packet", "packet", "name_slice", "rdata_slice"]),
            ("trait", "rr_iterator.rs", "TypedIterable", ["rr_type", "rr_class"]),
            ("traitimpl", "response_iterator.rs", "TypedIterable for ResponseIterator", "*"),
            ("traitimpl", "response_iterator.rs", "DNSIterable for ResponseIterator", ["offset", "offset_next", "raw", "parsed_packet"]),
            ("impl", "response_iterator.rs", "ResponseIterator", "*"),
            ("inherent_from_traitimpl", "response_iterator.rs", "DNSIterable for ResponseIterator", ["next"]),
        ],
    },
    "U3": {
        "title": "header bits (C12, header part of C04)",
        "flags": [],
        "contracts": ["contracts/U3.contract"],
        "parts": COMMON_HEAD + [
            ("struct", "parsed_packet.rs", "ParsedPacket"),
            ("struct", "dns_sector.rs", "DNSSector"),
            ("file", "spec/pp_basic.rs"),
            ("impl", "dns_sector.rs", "DNSSector", U3_FNS_DS),
            ("impl", "parsed_packet.rs", "ParsedPacket", U3_FNS_PP),
            ("file", "spec/clients_u3.rs"),
        ],
    },
}
